"""C13 - B/IP broadcasts and foreign registrations: forwarding matrix of the
BBMD per inbound function (Annex J.4.5), foreign / simple node rules,
exhaustiveness, foreign-device table ageing, foreign node timers."""
import ast

from ..report import rule
from ..model import norm, NotConst, calls_in, stores_in, ShapeError, AnchorMissing, is_self_attr
from ..paths import enumerate_paths, facts_at, walk_shallow, enclosing_stmt, enclosing_loops, always_leaves
from ..guards import Evaluator, atom_texts
from .common import where, path_nodes, feasible, same_function, grid
from .c08 import _addr_types
from .c09 import REF as BVLL_CLASSES

MOD = "bvllservice"


def _arm_calls(f, pdu, klass, ev, method):
    """calls to self.<method>(...) reachable when isinstance(pdu, klass) (and for no other class)"""
    out = []
    others = [k for k in BVLL_CLASSES if k != klass]
    for x in calls_in(f):
        if norm(x.func) != "self.%s" % method:
            continue
        fa = facts_at(x)
        if ev.may_hold(fa, {"isinstance:%s" % pdu: klass}) and not any(ev.may_hold(fa, {"isinstance:%s" % pdu: o}) for o in others[:3]):
            out.append(x)
    return out


def _dest_before(call, var="xpdu"):
    """the value last assigned to <var>.pduDestination before the call in its block (or the destination= keyword of the constructor)"""
    st = enclosing_stmt(call)
    blk = getattr(st, "_parent", None)
    for fld in ("body", "orelse"):
        lst = getattr(blk, fld, None)
        if isinstance(lst, list) and st in lst:
            for s in reversed(lst[:lst.index(st)]):
                if isinstance(s, ast.Assign) and norm(s.targets[0]) == "%s.pduDestination" % var:
                    return norm(s.value)
    return None


def _sent_var(call, default="xpdu"):
    """the local name handed to the send call (an inlined helper's local is spelled xpdu__N)"""
    if call.args and isinstance(call.args[0], ast.Name):
        return call.args[0].id
    return default


def _ctor_of(f, call, var="xpdu"):
    """the constructor call whose result is the variable sent by `call` (nearest preceding assignment in source order)"""
    best = None
    for s in walk_shallow(f):
        if isinstance(s, ast.Assign) and norm(s.targets[0]) == var and isinstance(s.value, ast.Call) and s.lineno < call.lineno:
            if best is None or s.lineno > best.lineno:
                best = s
    return best.value if best is not None else None


def _matrix(ctx, c, f, pdu, klass):
    prog = ctx.prog
    ev = Evaluator(prog, c.module, c)
    at = _addr_types(ctx)
    res = {"up": [], "bdt": [], "fdt": [], "local": [], "other": []}
    for x in _arm_calls(f, pdu, klass, ev, "response"):
        k = _ctor_of(f, x, _sent_var(x))
        kw = {a.arg: norm(a.value) for a in k.keywords} if k is not None else {}
        fa = facts_at(x)
        res["up"].append({"ctor": norm(k.func) if k is not None else None, "source": kw.get("source"), "destination": kw.get("destination"),
                          "data": norm(k.args[0]) if k is not None and k.args else None,
                          "needs_server": not ev.may_hold(fa, {"self.serverPeer": False, "isinstance:%s" % pdu: klass})})
    sends = []
    for x in _arm_calls(f, pdu, klass, ev, "request"):
        loops = [l for l in enclosing_loops(x) if isinstance(l, ast.For)]
        split = False
        if loops and _dest_before(x) is None:
            # the send follows an if/else that chooses the destination (common tail): one entry per way through the loop body
            from .common import body_paths, consistent, path_nodes
            from ..paths import Fact
            for p_ in body_paths(loops[0].body):
                nodes = path_nodes(p_)
                if not any(nd is x for nd in nodes) or not consistent(p_.conds()):
                    continue
                dst = None
                for nd in nodes:
                    if nd is x:
                        break
                    if isinstance(nd, ast.Assign) and norm(nd.targets[0]) == "xpdu.pduDestination":
                        dst = norm(nd.value)
                extra = [Fact(t_, pol_, "arm") for t_, pol_ in p_.conds()]
                sends.append((x, dst, facts_at(loops[0]) + extra))
                split = True
        if not split:
            sends.append((x, _dest_before(x), facts_at(x)))
    for x, dest, fa in sends:
        loops = [l for l in enclosing_loops(x) if isinstance(l, ast.For)]
        k = _ctor_of(f, x)
        ent = {"ctor": norm(k.func) if k is not None else None, "originator": norm(k.args[0]) if k is not None and k.args else None, "dest": dest, "facts": fa, "call": x}
        KA = "%s.pduDestination.addrType" % pdu
        # how the message arrived (unicast to us / directed broadcast) under which this send is reachable
        ent["arrival"] = sorted(kind for kind in ("localStationAddr", "localBroadcastAddr") if ev.may_hold(fa, {KA: at[kind], "isinstance:%s" % pdu: klass}))
        if loops and norm(loops[0].iter) == "self.bbmdBDT":
            lv = norm(loops[0].target)
            ent["self"] = ev.may_hold(fa, {"%s != self.bbmdAddress" % lv: False, "%s == self.bbmdAddress" % lv: True, "isinstance:%s" % pdu: klass})
            ent["peer"] = ev.may_hold(fa, {"%s != self.bbmdAddress" % lv: True, "%s == self.bbmdAddress" % lv: False, "isinstance:%s" % pdu: klass})
            res["bdt"].append(ent)
        elif loops and norm(loops[0].iter) == "self.bbmdFDT":
            lv = norm(loops[0].target)
            k1, k2 = "%s.fdAddress != %s.pduSource" % (lv, pdu), "%s.fdAddress == %s.pduSource" % (lv, pdu)
            ent["sender"] = ev.may_hold(fa, {k1: False, k2: True, "isinstance:%s" % pdu: klass})
            ent["others"] = ev.may_hold(fa, {k1: True, k2: False, "isinstance:%s" % pdu: klass})
            res["fdt"].append(ent)
        elif dest == "LocalBroadcast()":
            K = "%s.pduDestination.addrType" % pdu
            ent["when"] = sorted((kind, inb) for kind in ("localStationAddr", "localBroadcastAddr") for inb in (True, False)
                                 if ev.may_hold(fa, {K: at[kind], "self.bbmdAddress in self.bbmdBDT": inb, "isinstance:%s" % pdu: klass}))
            res["local"].append(ent)
        else:
            res["other"].append(ent)
    return res


DIRECTED = "Address(((bdte.addrIP | ~bdte.addrMask), bdte.addrPort))"


def _is_directed(d):
    return d is not None and "addrIP" in d and "~" in d and "addrMask" in d and "addrPort" in d and d.startswith("Address(")


@rule("C13.R1", "the BBMD forwards each kind of broadcast exactly as Annex J.4.5 prescribes; foreign and simple nodes emit and accept broadcasts only in the prescribed form", floor=20, engines="E1 facts: forwarding-matrix extraction")
def r1(ctx):
    prog = ctx.prog
    c = prog.cls(MOD, "BIPBBMD")
    m = c.module
    f = c.methods.get("confirmation")
    ind = c.methods.get("indication")
    if f is None or ind is None:
        raise AnchorMissing("BIPBBMD.confirmation/indication")
    pdu = f.args.args[1].arg
    # ---- Original-Broadcast-NPDU
    mx = _matrix(ctx, c, f, pdu, "OriginalBroadcastNPDU")
    up = mx["up"]
    ctx.check("BBMD.OriginalBroadcast:up", len(up) == 1 and up[0]["source"] == "%s.pduSource" % pdu and up[0]["destination"] == "LocalBroadcast()" and up[0]["data"] == "%s.pduData" % pdu, where(m, f),
              "an original broadcast is handed up once with the link source as originator: %r" % up)
    ok = len(mx["bdt"]) == 1 and mx["bdt"][0]["peer"] and not mx["bdt"][0]["self"] and _is_directed(mx["bdt"][0]["dest"]) and mx["bdt"][0]["ctor"] == "ForwardedNPDU" and mx["bdt"][0]["originator"] == "%s.pduSource" % pdu
    ctx.check("BBMD.OriginalBroadcast:peers", ok, where(m, f), "forwarded to every BDT peer except itself (directed broadcast address), originator = link source")
    ok = len(mx["fdt"]) == 1 and mx["fdt"][0]["sender"] and mx["fdt"][0]["others"] and mx["fdt"][0]["dest"] == "fdte.fdAddress" and mx["fdt"][0]["ctor"] == "ForwardedNPDU"
    ctx.check("BBMD.OriginalBroadcast:foreign", ok, where(m, f), "forwarded to every registered foreign device")
    ctx.check("BBMD.OriginalBroadcast:no-local-rebroadcast", not mx["local"] and not mx["other"], where(m, f), "an original broadcast was already seen by the local subnet")
    # ---- Forwarded-NPDU
    mx = _matrix(ctx, c, f, pdu, "ForwardedNPDU")
    up = mx["up"]
    ctx.check("BBMD.Forwarded:up", len(up) == 1 and up[0]["source"] == "%s.bvlciAddress" % pdu and up[0]["destination"] == "LocalBroadcast()", where(m, f),
              "a forwarded NPDU is handed up once with the address carried in the message as originator: %r" % up)
    ctx.check("BBMD.Forwarded:not-to-peers", not mx["bdt"], where(m, f), "a forwarded NPDU must never be forwarded to BDT peers again (broadcast storm)")
    ok = len(mx["fdt"]) == 1 and mx["fdt"][0]["sender"] and mx["fdt"][0]["others"] and mx["fdt"][0]["dest"] == "fdte.fdAddress" and mx["fdt"][0]["originator"] == "%s.bvlciAddress" % pdu
    ctx.check("BBMD.Forwarded:foreign", ok, where(m, f), "forwarded to every registered foreign device with the original originator")
    ctx.check("BBMD.Forwarded:foreign-any-arrival", len(mx["fdt"]) == 1 and mx["fdt"][0]["arrival"] == ["localBroadcastAddr", "localStationAddr"], where(m, f),
              "foreign devices get a forwarded NPDU whether it arrived as unicast (two-hop) or as directed broadcast (one-hop): found only for %r" % [e["arrival"] for e in mx["fdt"]])
    ok = len(mx["local"]) == 1 and mx["local"][0]["when"] == [("localStationAddr", True)] and mx["local"][0]["originator"] == "%s.bvlciAddress" % pdu
    ctx.check("BBMD.Forwarded:local-rebroadcast", ok, where(m, f),
              "re-broadcast on the local subnet exactly when it arrived as a unicast and this BBMD is in its own BDT (two-hop distribution): %r" % [e.get("when") for e in mx["local"]])
    # ---- Distribute-Broadcast-To-Network
    mx = _matrix(ctx, c, f, pdu, "DistributeBroadcastToNetwork")
    up = mx["up"]
    ctx.check("BBMD.Distribute:up", len(up) == 1 and up[0]["source"] == "%s.pduSource" % pdu and up[0]["destination"] == "LocalBroadcast()", where(m, f), "handed up once with the foreign device as originator: %r" % up)
    b = mx["bdt"]
    selfs = [e for e in b if e["self"] and not e["peer"]]
    peers = [e for e in b if e["peer"] and not e["self"]]
    ok = len(b) == 2 and len(selfs) == 1 and len(peers) == 1 and selfs[0]["dest"] == "LocalBroadcast()" and _is_directed(peers[0]["dest"]) and all(e["originator"] == "%s.pduSource" % pdu for e in b)
    ctx.check("BBMD.Distribute:bdt", ok, where(m, f), "sent to every BDT entry: local broadcast for its own entry, directed broadcast for the peers, originator = the foreign device")
    ok = len(mx["fdt"]) == 1 and not mx["fdt"][0]["sender"] and mx["fdt"][0]["others"] and mx["fdt"][0]["dest"] == "fdte.fdAddress"
    ctx.check("BBMD.Distribute:foreign-except-sender", ok, where(m, f), "forwarded to every foreign device except the one that sent it")
    ctx.check("BBMD.Distribute:any-arrival", all(e["arrival"] == ["localBroadcastAddr", "localStationAddr"] for e in mx["fdt"] + mx["bdt"]), where(m, f), "distribution does not depend on how the request was addressed")
    # ---- own broadcast
    ip = ind.args.args[1].arg
    ev = Evaluator(prog, m, c)
    at = _addr_types(ctx)
    K = "%s.pduDestination.addrType" % ip
    reqs = [x for x in calls_in(ind) if norm(x.func) == "self.request" and ev.may_hold(facts_at(x), {K: at["localBroadcastAddr"]}) and not ev.may_hold(facts_at(x), {K: at["localStationAddr"]})]
    plain = [x for x in reqs if not enclosing_loops(x)]
    k0 = _ctor_of(ind, plain[0]) if plain else None
    ctx.check("BBMD.indication:original-broadcast", len(plain) == 1 and k0 is not None and norm(k0.func) == "OriginalBroadcastNPDU", where(m, ind), "an own broadcast goes out once as Original-Broadcast-NPDU on the local subnet")
    bd = [x for x in reqs if enclosing_loops(x) and norm(enclosing_loops(x)[0].iter) == "self.bbmdBDT"]
    fd = [x for x in reqs if enclosing_loops(x) and norm(enclosing_loops(x)[0].iter) == "self.bbmdFDT"]
    ok = len(bd) == 1 and len(fd) == 1
    if ok:
        kf = _ctor_of(ind, bd[0])
        fa = facts_at(bd[0])
        ok = norm(kf.func) == "ForwardedNPDU" and norm(kf.args[0]) == "self.bbmdAddress" and _is_directed(_dest_before(bd[0])) \
            and not ev.may_hold(fa, {"bdte != self.bbmdAddress": False, "bdte == self.bbmdAddress": True, K: at["localBroadcastAddr"]}) \
            and ev.may_hold(fa, {"bdte != self.bbmdAddress": True, "bdte == self.bbmdAddress": False, K: at["localBroadcastAddr"]})
        ok = ok and _dest_before(fd[0]) == "fdte.fdAddress" and not [z for z in facts_at(fd[0], stop=enclosing_loops(fd[0])[0])]
    ctx.check("BBMD.indication:forwarded-to-peers-and-foreign", ok, where(m, ind), "an own broadcast is forwarded to every BDT peer except itself and to every foreign device, with the BBMD's own address as originator")
    reqs = [x for x in calls_in(ind) if norm(x.func) == "self.request" and ev.may_hold(facts_at(x), {K: at["localStationAddr"]}) and not ev.may_hold(facts_at(x), {K: at["localBroadcastAddr"]})]
    k0 = _ctor_of(ind, reqs[0]) if reqs else None
    ctx.check("BBMD.indication:unicast", len(reqs) == 1 and k0 is not None and norm(k0.func) == "OriginalUnicastNPDU", where(m, ind), "a unicast goes out once as Original-Unicast-NPDU")
    # ---- foreign node
    fg = prog.cls(MOD, "BIPForeign")
    fi, fc = fg.methods.get("indication"), fg.methods.get("confirmation")
    if fi is None or fc is None:
        raise AnchorMissing("BIPForeign.indication/confirmation")
    evf = Evaluator(prog, m, fg)
    ip = fi.args.args[1].arg
    K = "%s.pduDestination.addrType" % ip
    reqs = [x for x in calls_in(fi) if norm(x.func) == "self.request" and evf.may_hold(facts_at(x), {K: at["localBroadcastAddr"]}) and not evf.may_hold(facts_at(x), {K: at["localStationAddr"]})]
    ok = len(reqs) == 1
    if ok:
        k = _ctor_of(fi, reqs[0])
        kw = {a.arg: norm(a.value) for a in k.keywords}
        reach = [s for s in (-2, -1, 0, 0x30) if evf.may_hold(facts_at(reqs[0]), {"self.registrationStatus": s, K: at["localBroadcastAddr"]})]
        ok = norm(k.func) == "DistributeBroadcastToNetwork" and kw.get("destination") == "self.bbmdAddress" and reach == [0]
    ctx.check("Foreign.indication:broadcast", ok, where(m, fi), "a foreign device's broadcast leaves only as Distribute-Broadcast-To-Network to its BBMD, and only while registered (status 0)")
    fp = fc.args.args[1].arg
    ups = _arm_calls(fc, fp, "ForwardedNPDU", evf, "response")
    ok = len(ups) == 1
    if ok:
        fa = facts_at(ups[0])
        reach = [(s, same) for s in (-1, 0) for same in (True, False)
                 if evf.may_hold(fa, {"self.registrationStatus": s, "%s.pduSource != self.bbmdAddress" % fp: not same, "%s.pduSource == self.bbmdAddress" % fp: same, "isinstance:%s" % fp: "ForwardedNPDU"})]
        k = _ctor_of(fc, ups[0])
        kw = {a.arg: norm(a.value) for a in k.keywords}
        ok = reach == [(0, True)] and kw.get("source") == "%s.bvlciAddress" % fp and kw.get("destination") == "LocalBroadcast()"
    ctx.check("Foreign.confirmation:forwarded", ok, where(m, fc), "forwarded NPDUs are accepted only while registered and only from the BBMD, shown with the carried originator")
    ctx.check("Foreign.confirmation:original-broadcast-dropped", not _arm_calls(fc, fp, "OriginalBroadcastNPDU", evf, "response") and not _arm_calls(fc, fp, "OriginalBroadcastNPDU", evf, "request"), where(m, fc),
              "a foreign device must ignore original broadcasts (it gets the same packet as a forwarded NPDU)")
    # ---- simple node
    sm = prog.cls(MOD, "BIPSimple")
    sc = sm.methods.get("confirmation")
    si = sm.methods.get("indication")
    if sc is None or si is None:
        raise AnchorMissing("BIPSimple.indication/confirmation")
    evs = Evaluator(prog, m, sm)
    sp = sc.args.args[1].arg
    for klass, src in (("OriginalBroadcastNPDU", "%s.pduSource"), ("ForwardedNPDU", "%s.bvlciAddress"), ("OriginalUnicastNPDU", "%s.pduSource")):
        ups = _arm_calls(sc, sp, klass, evs, "response")
        ok = len(ups) == 1
        if ok:
            k = _ctor_of(sc, ups[0])
            kw = {a.arg: norm(a.value) for a in k.keywords}
            ok = kw.get("source") == src % sp and kw.get("destination") == ("LocalBroadcast()" if klass != "OriginalUnicastNPDU" else "%s.pduDestination" % sp) and not _arm_calls(sc, sp, klass, evs, "request")
        ctx.check("Simple.confirmation:%s" % klass, ok, where(m, sc), "%s is handed up once with %s as originator and not re-sent" % (klass, src % "pdu"))
    ip = si.args.args[1].arg
    K = "%s.pduDestination.addrType" % ip
    for kind, want in (("localStationAddr", "OriginalUnicastNPDU"), ("localBroadcastAddr", "OriginalBroadcastNPDU")):
        reqs = [x for x in calls_in(si) if norm(x.func) == "self.request" and evs.may_hold(facts_at(x), {K: at[kind]}) and not evs.may_hold(facts_at(x), {K: at["localStationAddr" if kind != "localStationAddr" else "localBroadcastAddr"]})]
        k = _ctor_of(si, reqs[0]) if len(reqs) == 1 else None
        ctx.check("Simple.indication:%s" % kind, k is not None and norm(k.func) == want, where(m, si), "%s destinations go out once as %s" % (kind, want))


@rule("C13.R2", "every B/IP node type handles all twelve BVLL functions", floor=40, engines="E3 exhaustiveness")
def r2(ctx):
    prog = ctx.prog
    for cname in ("BIPSimple", "BIPForeign", "BIPBBMD", "BIPNAT"):
        if not prog.has_cls(MOD, cname):
            raise AnchorMissing("%s.%s" % (MOD, cname))
        c = prog.cls(MOD, cname)
        f = c.methods.get("confirmation")
        if f is None:
            raise AnchorMissing("%s.confirmation" % cname)
        pdu = f.args.args[1].arg
        tested = set()
        for n in walk_shallow(f):
            if isinstance(n, ast.Call) and norm(n.func) == "isinstance" and len(n.args) == 2 and norm(n.args[0]) == pdu:
                t = n.args[1]
                for e in (t.elts if isinstance(t, ast.Tuple) else [t]):
                    tested.add(norm(e))
        for k in BVLL_CLASSES:
            ctx.check("%s.confirmation:handles[%s]" % (cname, k), k in tested, where(c.module, f), "%s never tests for %s: such a frame falls into the 'invalid pdu type' branch" % (cname, k))


@rule("C13.R3", "foreign-device table: registration stores TTL and TTL + grace, a one-second tick ages entries and removes them at zero, deletion answers found / not found", floor=8, engines="E1 paths + E5")
def r3(ctx):
    prog = ctx.prog
    c = prog.cls(MOD, "BIPBBMD")
    m = c.module
    ev = Evaluator(prog, m, c)
    f = c.methods.get("register_foreign_device")
    if f is None:
        raise AnchorMissing("BIPBBMD.register_foreign_device")
    addr, ttl = f.args.args[1].arg, f.args.args[2].arg
    n = 0
    for p in enumerate_paths(f):
        if p.term == "raise":
            continue
        n += 1
        nodes = path_nodes(p)
        st_ttl = [x for x in nodes if isinstance(x, ast.Assign) and norm(x.targets[0]).endswith(".fdTTL")]
        st_rem = [x for x in nodes if isinstance(x, ast.Assign) and norm(x.targets[0]).endswith(".fdRemain")]
        ok = len(st_ttl) == 1 and norm(st_ttl[0].value) == ttl and len(st_rem) == 1
        if ok:
            okv, cx = same_function(ev, st_rem[0].value, grid(**{ttl: [1, 30, 300]}), lambda e: e[ttl] + (ev.value(st_rem[0].value, {ttl: 0})))
            grace = ev.value(st_rem[0].value, {ttl: 0})
            ok = okv and isinstance(grace, int) and 0 < grace <= 60
        if not ctx.check("BBMD.register_foreign_device:ttl+grace", ok, where(m, f), "every registration (new or renewal) must store the TTL and a remaining time of TTL plus a positive grace period"):
            break
        ret = [x for x in nodes if isinstance(x, ast.Return)]
        ctx.check("BBMD.register_foreign_device:acknowledges", len(ret) == 1 and prog.try_const(m, ret[0].value) == 0, where(m, f), "a successful registration answers result code 0")
    # one record per device: new entry only when no entry matches
    loops = [l for l in walk_shallow(f) if isinstance(l, ast.For) and norm(l.iter) == "self.bbmdFDT"]
    ok = len(loops) == 1 and bool(loops[0].orelse)
    if ok:
        lp = loops[0]
        ap = [x for st in lp.orelse for x in calls_in(st) if norm(x.func) == "self.bbmdFDT.append"]
        inbody = [x for st in lp.body for x in calls_in(st) if norm(x.func) == "self.bbmdFDT.append"]
        tests = [s for s in lp.body if isinstance(s, ast.If)]
        ok = len(ap) == 1 and not inbody and len(tests) == 1 and isinstance(tests[0].body[-1], ast.Break) and {norm(tests[0].test.left), norm(tests[0].test.comparators[0])} == {addr, "%s.fdAddress" % norm(lp.target)} \
            and isinstance(tests[0].test.ops[0], ast.Eq)
    ctx.check("BBMD.register_foreign_device:one-record-per-device", ok, where(m, f), "a renewal must reuse the entry with the same address; a new entry is appended only when none matches")
    # ageing
    t = c.methods.get("process_task")
    if t is None:
        raise AnchorMissing("BIPBBMD.process_task")
    decs = [x for x in walk_shallow(t) if isinstance(x, ast.AugAssign) and norm(x.target).endswith(".fdRemain")]
    ok = len(decs) == 1 and isinstance(decs[0].op, ast.Sub) and prog.try_const(m, decs[0].value) == 1 and not [z for z in facts_at(decs[0]) if z.origin == "arm"]
    ctx.check("BBMD.process_task:tick", ok, where(m, t), "each tick must lower every entry's remaining time by exactly one")
    dels = [x for x in walk_shallow(t) if isinstance(x, ast.Delete)]
    ok = len(dels) == 1
    if ok:
        key = norm(decs[0].target) if decs else "fdte.fdRemain"
        reach = [v for v in (-1, 0, 1, 5) if ev.may_hold([z for z in facts_at(dels[0]) if "fdRemain" in norm(z.test)], {key: v})]
        ok = reach == [-1, 0] and decs and decs[0].lineno < dels[0].lineno
    ctx.check("BBMD.process_task:expiry", ok, where(m, t), "an entry is removed exactly when its remaining time reaches zero (after the decrement)")
    lp = [l for l in walk_shallow(t) if isinstance(l, ast.For)]
    ok = len(lp) == 1
    if ok:
        try:
            # the order of the indexes visited for a table of four entries
            order = list(ev.value(lp[0].iter, {"len(self.bbmdFDT)": 4, "self.bbmdFDT": (0, 0, 0, 0)}))
        except (NotConst, TypeError):
            order = None
        ok = order == [3, 2, 1, 0]
    ctx.check("BBMD.process_task:descending-scan", ok, where(m, t), "entries are deleted while scanning: the scan must run from the last index down")
    init = c.methods["__init__"]
    rc = [x for x in calls_in(init) if norm(x.func) == "RecurringTask.__init__"]
    ok = len(rc) == 1 and len(rc[0].args) >= 2 and prog.try_const(m, rc[0].args[1]) in (1000, 1000.0) and any(norm(x.func) == "self.install_task" for x in calls_in(init))
    ctx.check("BBMD.__init__:one-second-tick", ok, where(m, init), "the ageing task must recur every 1000 ms and be installed")
    # deletion
    d = c.methods.get("delete_foreign_device_table_entry")
    if d is None:
        raise AnchorMissing("BIPBBMD.delete_foreign_device_table_entry")
    # decided on the paths of the method: where the address comparison succeeded the entry compared is deleted and 0 is
    # returned; where no comparison succeeded nothing is deleted and 0x0050 is returned
    from .common import path_return_value
    evd = Evaluator(prog, m, c)
    n_found = n_miss = 0
    ok = True
    for p in enumerate_paths(d):
        if p.term != "return":
            continue
        hits = [e for e in p.events if e.kind == "cond" and "fdAddress" in norm(e.node) and e.pol]
        dels = [e.node for e in p.events if e.kind == "stmt" and isinstance(e.node, ast.Delete)]
        kind, val = path_return_value(p, evd, {})
        if hits:
            n_found += 1
            cmp_ = hits[-1].node
            entry = [norm(x.value) for x in ast.walk(cmp_) if isinstance(x, ast.Attribute) and x.attr == "fdAddress"]
            ok = ok and len(dels) == 1 and len(entry) == 1 and norm(dels[0].targets[0]) == entry[0] and entry[0].startswith("self.bbmdFDT[") \
                and kind == "value" and val == 0 and val is not False
        else:
            n_miss += 1
            ok = ok and not dels and kind == "value" and val == 0x0050
    ok = ok and n_found >= 1 and n_miss >= 1
    ctx.check("BBMD.delete_foreign_device_table_entry", ok, where(m, d), "deleting removes the entry with that address (result 0) or answers 0x0050 when there is none")
    # the table handed out is the live table
    f = c.methods["confirmation"]
    k = [x for x in calls_in(f) if norm(x.func) == "ReadForeignDeviceTableAck"]
    ctx.check("BBMD.confirmation:read-fdt", len(k) == 1 and norm(k[0].args[0]) == "self.bbmdFDT", where(m, f), "Read-FDT answers with the current table")
    k = [x for x in calls_in(f) if norm(x.func) == "self.register_foreign_device"]
    ok = len(k) == 1 and [norm(a) for a in k[0].args] == ["%s.pduSource" % f.args.args[1].arg, "%s.bvlciTimeToLive" % f.args.args[1].arg]
    ctx.check("BBMD.confirmation:register-args", ok, where(m, f), "registration uses the sender's address and the requested time-to-live")


@rule("C13.R4", "a foreign device renews its registration every TTL, tracks expiry TTL + 30 s after an acknowledgement, and stops everything on unregister", floor=7, engines="E1")
def r4(ctx):
    prog = ctx.prog
    c = prog.cls(MOD, "BIPForeign")
    m = c.module
    ev = Evaluator(prog, m, c)
    t = c.methods.get("process_task")
    if t is None:
        raise AnchorMissing("BIPForeign.process_task")
    mk = [x for x in calls_in(t) if norm(x.func) == "RegisterForeignDevice"]
    rq = [x for x in calls_in(t) if norm(x.func) == "self.request"]
    it = [x for x in calls_in(t) if norm(x.func) == "self.install_task"]
    ok = len(mk) == 1 and norm(mk[0].args[0]) == "self.bbmdTimeToLive" and len(rq) == 1 and len(it) == 1 and {k.arg: norm(k.value) for k in it[0].keywords} == {"delta": "self.bbmdTimeToLive"}
    dst = [s for s in walk_shallow(t) if isinstance(s, ast.Assign) and norm(s.targets[0]).endswith(".pduDestination")]
    ok = ok and len(dst) == 1 and norm(dst[0].value) == "self.bbmdAddress"
    ctx.check("Foreign.process_task:renews", ok, where(m, t), "each firing must send Register-Foreign-Device(TTL) to the BBMD and re-install itself TTL seconds later")
    f = c.methods["confirmation"]
    p = f.args.args[1].arg
    st = [s for tg, s in stores_in(f) if is_self_attr(tg, "registrationStatus")]
    ok = len(st) == 1 and norm(st[0].value) == "%s.bvlciResultCode" % p
    if ok:
        fa = facts_at(st[0])
        reach = [(s, same) for s in (-2, -1, 0) for same in (True, False)
                 if ev.may_hold(fa, {"self.registrationStatus": s, "%s.pduSource != self.bbmdAddress" % p: not same, "%s.pduSource == self.bbmdAddress" % p: same, "isinstance:%s" % p: "Result"})]
        ok = reach == [(-1, True), (0, True)]
    ctx.check("Foreign.confirmation:result-from-bbmd-only", ok, where(m, f), "only a Result from the BBMD, and not after unregistering (-2), may change the registration status")
    tr = [x for x in calls_in(f) if norm(x.func) == "self._start_track_registration"]
    ok = len(tr) == 1
    if ok:
        reach = [s for s in (-1, 0, 0x30) if ev.may_hold([z for z in facts_at(tr[0]) if z.origin == "arm" and "registrationStatus" in norm(z.test)][:1], {"self.registrationStatus": s})]
        ok = reach == [0] and st and st[0].lineno < tr[0].lineno
    ctx.check("Foreign.confirmation:ack-starts-tracking", ok, where(m, f), "expiry tracking starts when (and only when) the BBMD acknowledged with result 0")
    # every acknowledgement re-arms the expiry - also the one that repeats the status the device already has (a renewal):
    # decided on the paths of the handler with the status store followed
    from .common import path_value
    okr = True
    n_ack = 0
    why = ""
    fpaths = [p_ for p_ in enumerate_paths(f) if p_.term != "raise"]
    for before in (-1, 0):
        for code in (0, 0x30):
            env = {"self.registrationStatus": before, "%s.bvlciResultCode" % p: code, "isinstance:%s" % p: "Result",
                   "%s.pduSource != self.bbmdAddress" % p: False, "%s.pduSource == self.bbmdAddress" % p: True}
            for p_ in fpaths:
                kind, _ = path_value(p_, ev, env, "<feasibility>")
                if kind == "infeasible":
                    continue
                tracks = any(e.kind == "stmt" and any(norm(x.func) == "self._start_track_registration" for x in calls_in(e.node)) for e in p_.events)
                if code == 0:
                    n_ack += 1
                    if not tracks:
                        okr = False
                        why = "status %d, result 0: %s" % (before, p_.describe()[:140])
                elif tracks:
                    okr = False
                    why = "result 0x30 starts tracking"
    ctx.check("Foreign.confirmation:every-ack-re-arms", okr and n_ack >= 2, where(m, f),
              "each result 0 from the BBMD - the first and every renewal - must restart the expiry tracking (%s)" % why)
    s = c.methods.get("_start_track_registration")
    it = [x for x in calls_in(s) if norm(x.func).endswith("_registration_timeout_task.install_task")] if s else []
    ok = len(it) == 1
    if ok:
        d = {k.arg: k.value for k in it[0].keywords}.get("delta")
        ok = d is not None
        if ok:
            okv, cx = same_function(ev, d, grid(**{"self.bbmdTimeToLive": [1, 30, 300]}), lambda e: e["self.bbmdTimeToLive"] + 30)
            ok = okv
    ctx.check("Foreign._start_track_registration:re-arms-on-every-ack", len(it) == 1 and not [z for z in facts_at(it[0])], where(m, s or c.node),
              "every acknowledgement pushes the expiry out again: the install must not depend on whether the timer is already running (%s)" % ([repr(z) for z in facts_at(it[0])] if it else "no install"))
    ctx.check("Foreign._start_track_registration:ttl+30", ok, where(m, s or c.node), "the registration is considered expired TTL + 30 s after the last acknowledgement (the BBMD's grace period)")
    x = c.methods.get("_registration_expired")
    st = [s_ for tg, s_ in stores_in(x) if is_self_attr(tg, "registrationStatus")] if x else []
    ctx.check("Foreign._registration_expired:unregistered", len(st) == 1 and prog.try_const(m, st[0].value) == -1, where(m, x or c.node), "expiry sets the status to unregistered (-1): broadcasts stop")
    u = c.methods.get("unregister")
    if u is None:
        raise AnchorMissing("BIPForeign.unregister")
    mk = [y for y in calls_in(u) if norm(y.func) == "RegisterForeignDevice"]
    names = [norm(y.func) for y in calls_in(u)]
    st = [s_ for tg, s_ in stores_in(u) if is_self_attr(tg, "registrationStatus")]
    ok = len(mk) == 1 and prog.try_const(m, mk[0].args[0]) == 0 and names.count("self.request") == 1 and "self.suspend_task" in names and "self._stop_track_registration" in names \
        and len(st) == 1 and prog.try_const(m, st[0].value) == -2
    if ok:
        # the request is addressed before the BBMD address is forgotten
        dst = [s_ for s_ in walk_shallow(u) if isinstance(s_, ast.Assign) and norm(s_.targets[0]).endswith(".pduDestination")]
        clr = [s_ for tg, s_ in stores_in(u) if is_self_attr(tg, "bbmdAddress")]
        ok = len(dst) == 1 and norm(dst[0].value) == "self.bbmdAddress" and (not clr or dst[0].lineno < clr[0].lineno)
    ctx.check("Foreign.unregister", ok, where(m, u), "unregister sends a registration with TTL 0 to the BBMD, sets status -2 and suspends the renewal and tracking tasks")
    r = c.methods.get("register")
    if r is None:
        raise AnchorMissing("BIPForeign.register")
    ttl = r.args.args[2].arg
    st = [s_ for tg, s_ in stores_in(r) if is_self_attr(tg, "bbmdTimeToLive")]
    ok = len(st) == 1 and norm(st[0].value) == ttl
    if ok:
        reach = [v for v in (-1, 0, 1, 30) if ev.may_hold(facts_at(st[0]), {ttl: v})]
        ok = reach == [1, 30]
    it = [y for y in calls_in(r) if norm(y.func) == "self.install_task"]
    ok = ok and len(it) == 1
    ctx.check("Foreign.register", ok, where(m, r), "register refuses a non-positive TTL, stores address and TTL and schedules the first registration")
    # typestate of registrationStatus: every value a method parks it at, and that confirmation() then ignores results in,
    # must be left again by register() - otherwise a later registration can never be acknowledged
    cf = c.methods["confirmation"]
    cp = cf.args.args[1].arg
    st_c = [s_ for tg, s_ in stores_in(cf) if is_self_attr(tg, "registrationStatus")]
    parked = set()
    for mname, mm in c.methods.items():
        for tg, s_ in stores_in(mm):
            if is_self_attr(tg, "registrationStatus"):
                v = prog.try_const(m, s_.value)
                if isinstance(v, int) and st_c and not ev.may_hold(facts_at(st_c[0]), {"self.registrationStatus": v, "%s.pduSource != self.bbmdAddress" % cp: False, "%s.pduSource == self.bbmdAddress" % cp: True, "isinstance:%s" % cp: "Result"}):
                    parked.add(v)
    rs = [s_ for tg, s_ in stores_in(r) if is_self_attr(tg, "registrationStatus") and not [z for z in facts_at(s_) if z.origin == "arm"]]
    leaves = bool(rs) and all(isinstance(prog.try_const(m, s_.value), int) and prog.try_const(m, s_.value) not in parked and prog.try_const(m, s_.value) != 0 for s_ in rs)
    ctx.check("Foreign.register:leaves-ignoring-state", leaves or not parked, where(m, r),
              "registrationStatus values %s make confirmation() ignore every Result; register() does not move the status out of them, so after unregister() a new registration is never seen as acknowledged and the device stays deaf and mute"
              % sorted(parked), facts={"ignoring_states": sorted(parked)})
    ctx.count("result-ignoring status values", len(parked))
