"""C18 - addresses: network and station ranges dominate every store, hash
vs equality fields, completeness of the constructors and of the printer, IP
derivations."""
import ast

from ..report import rule
from ..model import norm, NotConst, calls_in, stores_in, ShapeError, AnchorMissing, is_self_attr
from ..paths import enumerate_paths, facts_at, walk_shallow, enclosing_stmt, statements_before
from ..guards import Evaluator, atom_texts, conjuncts
from .common import where, path_nodes, feasible, same_function, grid, subst_locals, local_defs, attr_stores

MOD = "pdu"
ADDR_CLASSES = ["Address", "LocalStation", "RemoteStation", "LocalBroadcast", "RemoteBroadcast", "GlobalBroadcast"]
FIELDS = ["addrType", "addrNet", "addrAddr", "addrLen", "addrRoute"]


def _nonneg_source(f, expr):
    """is the stored expression derived from int(<text matched by \\d+>) (cannot be negative)?"""
    if isinstance(expr, ast.Call) and norm(expr.func) == "int":
        return True
    if isinstance(expr, ast.Name):
        # nearest preceding assignment in source order
        best = None
        for s in walk_shallow(f):
            if isinstance(s, ast.Assign) and s.lineno < expr.lineno:
                for t in s.targets:
                    if isinstance(t, ast.Name) and t.id == expr.id:
                        if best is None or s.lineno > best.lineno:
                            best = s
        if best is not None and isinstance(best.value, ast.Call) and norm(best.value.func) == "int":
            return True
    return False


@rule("C18.R1", "every store of a network number is dominated by the range test 0..65534", floor=10, engines="E1 facts + E5 value sets")
def r1(ctx):
    prog = ctx.prog
    m = prog.module(MOD)
    n = 0
    for cname in ADDR_CLASSES:
        c = prog.cls(MOD, cname)
        ev = Evaluator(prog, m, c)
        for fname, f in sorted(c.methods.items()):
            k = 0
            for tgt, st in stores_in(f):
                if not (is_self_attr(tgt, "addrNet") and isinstance(st, ast.Assign)):
                    continue
                if isinstance(st.value, ast.Constant) and st.value.value is None:
                    continue
                k += 1
                n += 1
                key = norm(st.value)
                fa = facts_at(st)
                nonneg = _nonneg_source(f, st.value)
                pts = [-5, -1, 0, 1, 65534, 65535, 65536, 70000]
                reach = [v for v in pts if ev.may_hold([x for x in fa if key in norm(x.test)], {key: v})]
                want = [0, 1, 65534] if not nonneg else None
                ok = (reach == [0, 1, 65534]) if not nonneg else (set(reach) & {65535, 65536, 70000} == set())
                ctx.check("%s.%s:addrNet=%s#%d" % (cname, fname, key, k), ok, where(m, st),
                          "a network number is stored without being limited to 0..65534 (values reaching the store: %r): 65535 is the global broadcast network and larger values are silently truncated to 16 bits on the wire" % reach,
                          facts={"source_cannot_be_negative": nonneg, "guards": [repr(x) for x in fa if key in norm(x.test)]})
    ctx.count("addrNet_stores", n)


@rule("C18.R2", "every station number packed into one octet is dominated by the range test 0..255", floor=6, engines="E1 facts + E5 value sets")
def r2(ctx):
    prog = ctx.prog
    m = prog.module(MOD)
    n = 0
    for cname in ADDR_CLASSES:
        c = prog.cls(MOD, cname)
        ev = Evaluator(prog, m, c)
        for fname, f in sorted(c.methods.items()):
            k = 0
            for call in calls_in(f):
                if norm(call.func) == "struct.pack" and len(call.args) == 2 and prog.try_const(m, call.args[0]) == "B":
                    k += 1
                    n += 1
                    key = norm(call.args[1])
                    fa = facts_at(call)
                    nonneg = _nonneg_source(f, call.args[1])
                    pts = [-1, 0, 1, 255, 256, 300]
                    reach = [v for v in pts if ev.may_hold([x for x in fa if key in norm(x.test)], {key: v})]
                    ok = (reach == [0, 1, 255]) if not nonneg else (set(reach) & {256, 300} == set() and 255 in reach)
                    ctx.check("%s.%s:station=%s#%d" % (cname, fname, key, k), ok, where(m, call),
                              "a station number outside 0..255 can reach the one-octet pack (values reaching it: %r)" % reach, facts={"source_cannot_be_negative": nonneg})
    ctx.count("station_packs", n)


_BYTES_CALLS = ("bytes", "struct.pack", "xtob", "socket.inet_aton", "bytes.fromhex")


def _short(t):
    return t if len(t) <= 40 else t[:37] + "..."


def _octets_kind(f, v, at, depth=0):
    """'owned' (a fresh immutable bytes value / None), 'alias' (the caller's object, possibly a
    bytearray) or 'unknown' (not decided)."""
    if isinstance(v, ast.Constant):
        return "owned" if v.value is None or isinstance(v.value, bytes) else "unknown"
    if isinstance(v, ast.Call):
        t = norm(v.func)
        if t in _BYTES_CALLS or t.endswith(".to_bytes") or t.endswith(".join") or t.endswith(".encode"):
            return "owned"
        return "unknown"
    if isinstance(v, ast.BinOp) and isinstance(v.op, ast.Add):
        ks = {_octets_kind(f, v.left, at, depth + 1), _octets_kind(f, v.right, at, depth + 1)}
        return "alias" if ks == {"alias"} else ("owned" if "owned" in ks else "unknown")   # bytes + x is a new bytes object
    if isinstance(v, ast.Subscript):
        return _octets_kind(f, v.value, at, depth + 1)     # a slice of bytes is bytes; of a bytearray a bytearray
    if isinstance(v, ast.Name) and depth < 4:
        params = [a.arg for a in f.args.args]
        defs = [s for t, s in stores_in(f) if isinstance(t, ast.Name) and t.id == v.id and isinstance(s, ast.Assign) and s.lineno < at.lineno]
        # restricted to bytes by a dominating isinstance test?
        for fact in facts_at(at):
            for cj, pol in conjuncts(fact.test, fact.pol):
                if pol and isinstance(cj, ast.Call) and norm(cj.func) == "isinstance" and norm(cj.args[0]) == v.id:
                    tt = cj.args[1].elts if isinstance(cj.args[1], ast.Tuple) else [cj.args[1]]
                    names = {norm(x) for x in tt}
                    if names <= {"bytes"}:
                        return "owned"
                    if "bytearray" in names:
                        return "alias"
        if defs:
            ks = {_octets_kind(f, d.value, d, depth + 1) for d in defs}
            if v.id in params:
                ks.add("alias")
            return "alias" if "alias" in ks and ks <= {"alias"} else ("owned" if ks == {"owned"} else "unknown")
        return "alias" if v.id in params else "unknown"
    if isinstance(v, ast.Attribute) and v.attr == "addrAddr":
        return "owned"
    return "unknown"


@rule("C18.R3", "equal addresses hash equally: every field the hash depends on is compared unconditionally by __eq__", floor=3, engines="E0 field sets")
def r3(ctx):
    prog = ctx.prog
    c = prog.cls(MOD, "Address")
    m = c.module
    t, h, e = c.methods.get("_tuple"), c.methods.get("__hash__"), c.methods.get("__eq__")
    if t is None or h is None or e is None:
        raise AnchorMissing("Address._tuple/__hash__/__eq__")
    ok = any(norm(x) == "hash(self._tuple())" for x in calls_in(h))
    ctx.check("Address.__hash__:uses-_tuple", ok, where(m, h), "the hash must be computed from _tuple()")
    hashed = set()
    for r in [x for x in walk_shallow(t) if isinstance(x, ast.Return)]:
        for n in ast.walk(r.value):
            if is_self_attr(n) and n.attr.startswith("addr"):
                hashed.add(n.attr)
    # unconditional comparisons in __eq__: statements at the top level of the function (not under an if)
    other = e.args.args[1].arg
    uncond = set()
    cond = set()
    for n in walk_shallow(e):
        if isinstance(n, ast.Compare) and isinstance(n.ops[0], ast.Eq) and is_self_attr(n.left) and norm(n.comparators[0]) == "%s.%s" % (other, n.left.attr):
            st = enclosing_stmt(n)
            under_if = [x for x in facts_at(st) if x.origin == "arm" and "isinstance" not in norm(x.test)]
            (cond if under_if else uncond).add(n.left.attr)
    for fld in sorted(hashed):
        ctx.check("Address:hash-field[%s]" % fld, fld in uncond, where(m, e),
                  "%s contributes to the hash (in route-aware mode) but __eq__ compares it only when both sides have one: a == b with hash(a) != hash(b), dictionary lookups miss" % fld
                  if fld in cond else "%s contributes to the hash but is not compared by __eq__" % fld, facts={"hashed": sorted(hashed), "compared_unconditionally": sorted(uncond), "compared_conditionally": sorted(cond)})
    # the same per mode: what _tuple() returns on the paths feasible with route awareness switched off (the default)
    evt = Evaluator(prog, m, c)
    hashed_default = set()
    for p_ in enumerate_paths(t):
        if p_.term != "return" or not feasible(p_, evt, {"settings.route_aware": False}):
            continue
        r_ = [e_.node for e_ in p_.events if e_.kind == "return"][-1]
        for n in ast.walk(r_.value):
            if is_self_attr(n) and n.attr.startswith("addr"):
                hashed_default.add(n.attr)
    for fld in sorted(hashed_default):
        ctx.check("Address:hash-field[%s]@default-mode" % fld, fld in uncond, where(m, t),
                  "with route awareness off (the default) %s still contributes to the hash, but __eq__ does not compare it unconditionally: equal addresses hash differently, dictionary and set lookups miss" % fld)
    for fld in ("addrType", "addrNet", "addrAddr"):
        ctx.check("Address:eq-field[%s]" % fld, fld in uncond and fld in hashed, where(m, e), "%s must take part in both equality and hash" % fld)
    # the hashed octets are an immutable bytes object the address owns (a caller's bytearray is unhashable and can change under the key)
    nst = 0
    for k in m.classes.values():
        if c not in prog.mro(k):
            continue
        for mname, f in k.methods.items():
            per = {}
            for tgt, s in attr_stores(f, "addrAddr"):
                if not isinstance(s, ast.Assign):
                    continue
                kind = _octets_kind(f, s.value, s)
                key = norm(s.value)
                per[key] = per.get(key, 0) + 1
                nst += 1
                ctx.check("%s.%s:octets-owned[%s]#%d" % (k.name, mname, _short(key), per[key]), kind != "alias", where(m, s),
                          "addrAddr = %s stores the caller's object: a bytearray makes the address unhashable (it still compares equal to the bytes spelling) and later changes to the buffer change the address" % key)
    ctx.count("addrAddr stores classified", nst)
    ne = c.methods.get("__ne__")
    ok = ne is not None and any(isinstance(r, ast.Return) and norm(r.value) == "not self.__eq__(%s)" % ne.args.args[1].arg for r in walk_shallow(ne))
    ctx.check("Address.__ne__", ok, where(m, ne or c.node), "!= must be the negation of ==")


@rule("C18.R4", "every constructor form sets all of type, network, octets, length and route; the printer covers all six address types", floor=12, engines="E1 paths")
def r4(ctx):
    prog = ctx.prog
    m = prog.module(MOD)
    for cname in ADDR_CLASSES[1:]:
        c = prog.cls(MOD, cname)
        f = c.methods.get("__init__")
        if f is None:
            raise AnchorMissing("%s.__init__" % cname)
        missing = set()
        for p in enumerate_paths(f):
            if p.term == "raise":
                continue
            got = {t.attr for n in path_nodes(p) if isinstance(n, ast.Assign) for t in n.targets if is_self_attr(t)}
            missing |= set(FIELDS) - got
        ctx.check("%s.__init__:all-fields" % cname, not missing, where(m, f), "a constructor path leaves %s unset (AttributeError later in printing/comparison)" % sorted(missing))
        want = {"LocalStation": "localStationAddr", "RemoteStation": "remoteStationAddr", "LocalBroadcast": "localBroadcastAddr", "RemoteBroadcast": "remoteBroadcastAddr", "GlobalBroadcast": "globalBroadcastAddr"}[cname]
        st = [s for t, s in stores_in(f) if is_self_attr(t, "addrType")]
        ctx.check("%s.__init__:type" % cname, len(st) == 1 and norm(st[0].value) == "Address.%s" % want, where(m, f), "%s must have address type %s" % (cname, want))
    a = prog.cls(MOD, "Address")
    for fname in ("__init__", "decode_address"):
        f = a.methods.get(fname)
        if f is None:
            raise AnchorMissing("Address.%s" % fname)
        top = [s for s in f.body if isinstance(s, ast.Assign)]
        got = {t.attr for s in top for t in s.targets if is_self_attr(t)}
        ctx.check("Address.%s:initialises-all" % fname, set(FIELDS) <= got, where(m, f), "all five fields must be initialised unconditionally at the top (missing %s)" % sorted(set(FIELDS) - got))
    # broadcast forms carry no octets
    d = a.methods["decode_address"]
    s = a.methods.get("__str__")
    if s is None:
        raise AnchorMissing("Address.__str__")
    ev = Evaluator(prog, m, a)
    consts = {n: prog.const(m, a.attrs[n], a) for n in ("nullAddr", "localBroadcastAddr", "localStationAddr", "remoteBroadcastAddr", "remoteStationAddr", "globalBroadcastAddr")}
    ctx.check("Address:type-constants", sorted(consts.values()) == list(range(6)), where(m, a.node), "six distinct address type constants 0..5")
    ps = enumerate_paths(s)
    for name, v in sorted(consts.items(), key=lambda x: x[1]):
        fs = [p for p in ps if feasible(p, ev, {"self.addrType": v})]
        ok = bool(fs) and all(p.term != "raise" for p in fs)
        ctx.check("Address.__str__:prints[%s]" % name, ok, where(m, s), "address type %s must be printable" % name)
    fs = [p for p in ps if feasible(p, ev, {"self.addrType": 6})]
    ctx.check("Address.__str__:unknown-type-refused", bool(fs) and all(p.term == "raise" for p in fs), where(m, s), "an unknown address type must raise")
    # literals of the broadcast forms
    lits = {}
    for st in walk_shallow(s):
        if isinstance(st, ast.Assign) and norm(st.targets[0]) == "rslt" and isinstance(st.value, (ast.Constant, ast.BinOp)):
            for name, v in consts.items():
                fa = [x for x in facts_at(st) if "addrType" in norm(x.test)]
                if [k for k, vv in consts.items() if ev.may_hold(fa, {"self.addrType": vv})] == [name]:
                    lits[name] = norm(st.value)
    ok = lits.get("localBroadcastAddr") == "'*'" and lits.get("globalBroadcastAddr") == "'*:*'" and lits.get("remoteBroadcastAddr") == "'%d:*' % (self.addrNet,)" and lits.get("remoteStationAddr") == "'%d:' % (self.addrNet,)"
    ctx.check("Address.__str__:broadcast-forms", ok, where(m, s), "printed forms must be the ones the parser accepts: '*', '*:*', 'net:*', 'net:station' (found %r)" % lits)
    # and the parser maps the same literals back
    for lit, tname in (("*", "localBroadcastAddr"), ("*:*", "globalBroadcastAddr")):
        sts = [st for t, st in stores_in(d) if is_self_attr(t, "addrType") and norm(st.value) == "Address.%s" % tname and any(tx == "addr == '%s'" % lit and p for tx, p in atom_texts(facts_at(st)))]
        ctx.check("Address.decode_address:'%s'" % lit, len(sts) == 1, where(m, d), "'%s' must parse to %s" % (lit, tname))


@rule("C18.R7", "a notation is accepted only as a whole: every pattern the address parser matches its text against is anchored at the end (junk after a valid address is refused, not ignored)",
      floor=9, engines="E0 constant evaluation of the patterns")
def r7(ctx):
    prog = ctx.prog
    a = prog.cls(MOD, "Address")
    m = a.module
    d = a.methods["decode_address"]
    n = 0
    for c in calls_in(d):
        pat = None
        f = c.func
        if norm(f) in ("re.match", "re.search") and c.args:
            pat = c.args[0]
            what = norm(c.args[0])[:40]
        elif isinstance(f, ast.Attribute) and f.attr in ("match", "search") and isinstance(f.value, ast.Name) and f.value.id in m.consts:
            v = m.consts[f.value.id]
            v = v[0] if isinstance(v, (list, tuple)) else v
            if isinstance(v, ast.Call) and norm(v.func) == "re.compile" and v.args:
                pat = v.args[0]
                what = f.value.id
        elif norm(f) == "re.fullmatch" or (isinstance(f, ast.Attribute) and f.attr == "fullmatch"):
            n += 1
            continue
        if pat is None:
            continue
        n += 1
        text = prog.try_const(m, pat)
        ok = isinstance(text, str) and (text.endswith("$") or text.endswith("\\Z")) and not text.endswith("\\$")
        ctx.check("Address.decode_address:anchored[%s@%d]" % (what, n), ok, where(m, c), "the pattern %r is not anchored at its end: text after a valid address is silently ignored" % (text if isinstance(text, str) else norm(pat),))
    if n < 8:
        raise ShapeError("Address.decode_address: %d pattern matches found" % n)


@rule("C18.R6", "Address(net, addr): a local station becomes a remote station and a local broadcast a remote broadcast on that network; any other kind is refused", floor=4,
      engines="E1 paths + E5")
def r6(ctx):
    prog = ctx.prog
    a = prog.cls(MOD, "Address")
    m = a.module
    f = a.methods.get("__init__")
    if f is None:
        raise AnchorMissing("Address.__init__")
    ev = Evaluator(prog, m, a)
    from .common import body_paths, path_value, consistent
    arms = [s for s in walk_shallow(f) if isinstance(s, ast.If) and norm(s.test) in ("len(args) == 2", "2 == len(args)")]
    if len(arms) != 1:
        raise ShapeError("Address.__init__: the two-argument form was not found")
    body = arms[0].body
    dec = [i for i, s in enumerate(body) if any(norm(x.func) == "self.decode_address" for x in calls_in(s))]
    if len(dec) != 1:
        raise ShapeError("Address.__init__: the two-argument form must decode its second argument once")
    net = [s for s in body[:dec[0]] if isinstance(s, ast.Assign) and norm(s.value) == "args[0]"]
    netv = norm(net[0].targets[0]) if len(net) == 1 else "args[0]"
    ctx.check("Address.__init__[net, addr]:decodes-second", norm([x for x in calls_in(body[dec[0]]) if norm(x.func) == "self.decode_address"][0].args[0]) == "args[1]", where(m, body[dec[0]]),
              "the second argument is the address")
    consts = {n: prog.const(m, a.attrs[n], a) for n in ("nullAddr", "localBroadcastAddr", "localStationAddr", "remoteBroadcastAddr", "remoteStationAddr", "globalBroadcastAddr")}
    want = {"localStationAddr": "remoteStationAddr", "localBroadcastAddr": "remoteBroadcastAddr"}
    rest = body[dec[0] + 1:]
    paths = body_paths(rest)
    for kind, val in sorted(consts.items()):
        outs = set()
        for p_ in paths:
            if not consistent(p_.conds()):
                continue
            k1, v1 = path_value(p_, ev, {"self.addrType": val, netv: 7}, "self.addrType")
            if k1 == "infeasible":
                continue
            if p_.term == "raise":
                outs.add("refused")
                continue
            k2, v2 = path_value(p_, ev, {"self.addrType": val, netv: 7}, "self.addrNet")
            outs.add((v1 if k1 == "value" else k1, v2 if k2 == "value" else k2))
        if kind in want:
            ok = outs == {(consts[want[kind]], 7)}
            desc = "becomes %s on the given network" % want[kind]
        else:
            ok = outs == {"refused"}
            desc = "is refused"
        ctx.check("Address.__init__[net, addr]:%s" % kind, ok, where(m, arms[0]), "Address(net, addr) with a %s address %s (found %s)" % (kind, desc, sorted(map(str, outs))))


@rule("C18.R5", "IP forms derive mask, host, subnet and directed broadcast as IPv4 arithmetic prescribes", floor=5, engines="E5 finite-domain expression evaluation")
def r5(ctx):
    prog = ctx.prog
    m = prog.module(MOD)
    a = prog.cls(MOD, "Address")
    d = a.methods["decode_address"]
    ev = Evaluator(prog, m, a)
    FULL = 0xFFFFFFFF
    # the string form with /bits
    masks = [s for t, s in stores_in(d) if is_self_attr(t, "addrMask") and "local_ip_net" in norm(s.value)]
    ok = len(masks) == 1
    if ok:
        okv, cx = same_function(ev, masks[0].value, grid(**{"int(local_ip_net)": list(range(0, 33))}), lambda e: (FULL << (32 - e["int(local_ip_net)"])) & FULL)
        ok = okv
    ctx.check("Address.decode_address:mask-from-bits", ok, where(m, d), "a /n mask is n one-bits followed by 32-n zero-bits, for every n in 0..32")
    ips = [0, 0x0A000001, 0xC0A800FE, 0xFFFFFFFF]
    mks = [0, 0xFF000000, 0xFFFFFF00, 0xFFFFFFF0, 0xFFFFFFFF]
    blk = getattr(masks[0], "_parent", None) if masks else None
    sts = {}
    if blk is not None:
        for s in blk.body:
            if isinstance(s, ast.Assign) and is_self_attr(s.targets[0]):
                sts[s.targets[0].attr] = s
            if isinstance(s, ast.Assign) and isinstance(s.targets[0], ast.Name):
                sts[s.targets[0].id] = s
    g = grid(**{"self.addrIP": ips, "self.addrMask": mks})
    for fld, ref, desc in (("addrHost", lambda e: e["self.addrIP"] & ~e["self.addrMask"], "ip AND NOT mask"), ("addrSubnet", lambda e: e["self.addrIP"] & e["self.addrMask"], "ip AND mask")):
        s = sts.get(fld)
        okv = False
        if s is not None:
            okv, cx = same_function(ev, s.value, g, ref)
        ctx.check("Address.decode_address:%s" % fld, okv, where(m, s or d), "%s must be %s" % (fld, desc))
    s = sts.get("bcast")
    okv = False
    if s is not None:
        e2 = s.value
        g2 = grid(**{"self.addrSubnet": [0, 0x0A000000, 0xC0A80000], "self.addrMask": mks})
        okv, cx = same_function(ev, ast.BinOp(left=e2, op=ast.BitAnd(), right=ast.Constant(FULL)), g2, lambda e: (e["self.addrSubnet"] | ~e["self.addrMask"]) & FULL)
    ctx.check("Address.decode_address:directed-broadcast", okv, where(m, s or d), "the directed broadcast is subnet OR NOT mask (32 bit)")
    # six octets: four address octets then the port in network order
    for fn in ("decode_address",):
        packs = [s for t, s in stores_in(d) if is_self_attr(t, "addrAddr") and "addrstr" in norm(s.value)]
        ok = len(packs) >= 2 and all(norm(s.value).replace('"', "'") in ("addrstr + struct.pack('!H', self.addrPort & _short_mask)", "addrstr + struct.pack('>H', self.addrPort & _short_mask)") for s in packs)
        ctx.check("Address.decode_address:six-octets", ok, where(m, d), "IP forms must store inet_aton(address) followed by the 16-bit port in network byte order")
        lens = [s for t, s in stores_in(d) if is_self_attr(t, "addrLen") and prog.try_const(m, s.value) == 6]
        ctx.check("Address.decode_address:length-6", len(lens) >= 2, where(m, d), "IP forms have length 6")
    # raw six octets: ip and port split
    raw = [s for t, s in stores_in(d) if is_self_attr(t, "addrPort") and "unpack" in norm(s.value)]
    ok = len(raw) == 1 and norm(raw[0].value).replace('"', "'") in ("struct.unpack('>H', addr[4:])[0]", "struct.unpack('!H', addr[4:])[0]", "struct.unpack('!H', addr[4:6])[0]", "struct.unpack('>H', addr[4:6])[0]")
    ctx.check("Address.decode_address:raw-six-octets-port", ok, where(m, d), "six raw octets: the port is octets 4..5 in network order")
    # default port and mask
    for var, dflt in (("local_ip_port", "47808"), ("local_ip_net", "32")):
        s = [x for x in walk_shallow(d) if isinstance(x, ast.Assign) and norm(x.targets[0]) == var and isinstance(x.value, ast.Constant)]
        ok = len(s) == 1 and s[0].value.value == dflt and any(t == var and not p for t, p in atom_texts(facts_at(s[0])))
        ctx.check("Address.decode_address:default[%s]" % var, ok, where(m, d), "a missing %s defaults to %s" % (var, dflt))


def ports_accepted(ctx):
    """(C18.R8, C09.R6) an (address, port) pair with any 16-bit port, 0..65535, is accepted: no refusal in the tuple form
    of the parser is reachable for such a port (every B/IP decoder builds its addresses through this form)"""
    prog = ctx.prog
    a = prog.cls(MOD, "Address")
    m = a.module
    d = a.methods["decode_address"]
    ev = Evaluator(prog, m, a)
    n = 0
    stores = [s_ for t_, s_ in attr_stores(d, "addrPort") if isinstance(s_, ast.Assign)]
    for r in [x for x in walk_shallow(d) if isinstance(x, ast.Raise)]:
        fa = facts_at(r)
        texts = [norm(z.test) for z in fa if z.origin == "arm"]         # the conditions this refusal is selected by
        if not any("addrPort" in t or t.replace(" ", "").startswith("port") or "(port" in t or " port " in " %s " % t for t in texts):
            continue
        n += 1
        port_facts = [z for z in fa if z.origin == "arm" and ("addrPort" in norm(z.test) or "port" in norm(z.test))]
        reach = [v for v in (0, 1, 47808, 65534, 65535) if ev.may_hold(port_facts, {"self.addrPort": v, "port": v, "int(port)": v})]
        ctx.check("Address.decode_address:port-refusal@%d" % n, not reach, where(m, r), "a refusal is reachable for the legal ports %r" % reach)
    ctx.check("Address.decode_address:port-stores", len(stores) >= 3, where(m, d), "the IP forms store the port")


@rule("C18.R8", "address/port tuples with any 16-bit port are accepted", floor=1, engines="E1 facts + E5 value sets")
def r8(ctx):
    ports_accepted(ctx)
