"""C09 - BACnet/IP frames: BVLCI layout and length checks, declared length =
emitted octets, encode/decode trace agreement of the twelve functions,
address packing, registry."""
import ast

from ..report import rule
from ..model import norm, NotConst, calls_in, stores_in, ShapeError, AnchorMissing, is_self_attr
from ..paths import walk_shallow, facts_at
from ..guards import Evaluator
from ..codec import extract, feasible_branches, consistent_branch
from ..tables import Tables
from .common import check_header_copy_first, where, same_function, grid, subst_locals
from .c08 import _sig

MOD = "bvll"
ADDR_OCTETS = 6      # B/IP address: 4 octets IPv4 + 2 octets port (Annex J.1.2)

# Annex J.2: body of each function -> (fixed widths, per-entry widths of a table, carries NPDU payload)
REF = {
    "Result": ([2], None, False),
    "WriteBroadcastDistributionTable": ([], [ADDR_OCTETS, 4], False),
    "ReadBroadcastDistributionTable": ([], None, False),
    "ReadBroadcastDistributionTableAck": ([], [ADDR_OCTETS, 4], False),
    "ForwardedNPDU": ([ADDR_OCTETS], None, True),
    "RegisterForeignDevice": ([2], None, False),
    "ReadForeignDeviceTable": ([], None, False),
    "ReadForeignDeviceTableAck": ([], [ADDR_OCTETS, 2, 2], False),
    "DeleteForeignDeviceTableEntry": ([ADDR_OCTETS], None, False),
    "DistributeBroadcastToNetwork": ([], None, True),
    "OriginalUnicastNPDU": ([], None, True),
    "OriginalBroadcastNPDU": ([], None, True),
}
FUNC_CODES = {"Result": 0, "WriteBroadcastDistributionTable": 1, "ReadBroadcastDistributionTable": 2, "ReadBroadcastDistributionTableAck": 3, "ForwardedNPDU": 4,
              "RegisterForeignDevice": 5, "ReadForeignDeviceTable": 6, "ReadForeignDeviceTableAck": 7, "DeleteForeignDeviceTableEntry": 8,
              "DistributeBroadcastToNetwork": 9, "OriginalUnicastNPDU": 10, "OriginalBroadcastNPDU": 11}


@rule("C09.R1", "the BVLCI is type 0x81, function, 16-bit total length on both sides; a type or length that disagrees with the frame is refused", floor=8, engines="E4 + E5")
def r1(ctx):
    prog = ctx.prog
    c = prog.cls(MOD, "BVLCI")
    m = c.module
    ev = Evaluator(prog, m, c)
    e, d = c.methods.get("encode"), c.methods.get("decode")
    if e is None or d is None:
        raise AnchorMissing("BVLCI.encode/decode")
    check_header_copy_first(ctx, c, d, "BVLCI.decode")
    enc = [b for b in extract(prog, c, e, "encode") if consistent_branch(b)]
    dec = [b for b in extract(prog, c, d, "decode") if consistent_branch(b)]
    okb = [b for b in enc if b.term != "raise"]
    ok = len(okb) == 1 and [(i.width, norm(i.expr)) for i in okb[0].emits()] == [(1, "self.bvlciType"), (1, "self.bvlciFunction"), (2, "self.bvlciLength")]
    ctx.check("BVLCI.encode:layout", ok, where(m, e), "the header must be type(1) function(1) length(2) in this order: %s" % [b.describe()[:200] for b in okb])
    init = c.methods.get("__init__")
    st = [s for t, s in stores_in(init) if is_self_attr(t, "bvlciType")] if init else []
    ctx.check("BVLCI.__init__:type", len(st) == 1 and prog.try_const(m, st[0].value) == 0x81, where(m, init or c.node), "frames must start with type 0x81")
    # encode refuses a wrong declared length
    for ln, L in ((4, 0), (10, 6), (5, 0), (9, 6), (0, 0), (1497, 1493), (1498, 1494), (1507, 1503), (65535, 65531)):
        env = {"self.bvlciLength": ln, "len(self.pduData)": L}
        fb = feasible_branches(enc, ev, env)
        good = ln == L + 4
        ok = bool(fb) and all((b.term != "raise") == good for b in fb)
        ctx.check("BVLCI.encode:length-check[%d,%d]" % (ln, L), ok, where(m, e), "declared length %d with %d payload octets must be %s" % (ln, L, "emitted" if good else "refused before the length is emitted"))
    rb = [b for b in enc if b.term == "raise"]
    ctx.check("BVLCI.encode:refusal-precedes-length", all(2 not in [i.width for i in b.emits()] for b in rb), where(m, e), "the length field is emitted before it is validated")
    # decode
    okd = [b for b in dec if b.term != "raise"]
    ok = len(okd) == 1 and [r.width for r in okd[0].reads()] == [1, 1, 2]
    if ok:
        st = okd[0].stores()
        ok = norm(st.get("self.bvlciType")) == "_r0" and norm(st.get("self.bvlciFunction")) == "_r1" and norm(st.get("self.bvlciLength")) == "_r2"
    ctx.check("BVLCI.decode:layout", ok, where(m, d), "the header must be read as type(1) function(1) length(2) into the three fields")
    p = d.args.args[1].arg
    L = "len(%s.pduData)" % p
    for t, ln, rest, good in ((0x81, 4, 0, True), (0x81, 10, 6, True), (0x82, 4, 0, False), (0x01, 4, 0, False), (0x81, 5, 0, False), (0x81, 4, 1, False), (0x81, 9, 6, False),
                              (0x81, 1497, 1493, True), (0x81, 1498, 1494, True), (0x81, 1507, 1503, True), (0x81, 65535, 65531, True), (0x81, 1507, 1502, False)):
        env = {"_r0": t, "_r1": 0, "_r2": ln, L: rest}
        fb = feasible_branches(dec, ev, env)
        ok = bool(fb) and all((b.term != "raise") == good for b in fb) and all(b.term != "raise" or b.items[-1].extra == "DecodingError" for b in fb)
        ctx.check("BVLCI.decode:check[type=%#x,len=%d,rest=%d]" % (t, ln, rest), ok, where(m, d), "must be %s" % ("accepted" if good else "refused with DecodingError"))
    # BVLPDU: header then untouched payload
    bp = prog.cls(MOD, "BVLPDU")
    e2, d2 = bp.methods.get("encode"), bp.methods.get("decode")
    if e2 is None or d2 is None:
        raise AnchorMissing("BVLPDU.encode/decode")
    p = e2.args.args[1].arg
    ctx.check("BVLPDU.encode:header-then-data", [norm(x) for x in calls_in(e2)] == ["BVLCI.encode(self, %s)" % p, "%s.put_data(self.pduData)" % p], where(m, e2), "header then self.pduData")
    p = d2.args.args[1].arg
    st = [s for t_, s in stores_in(d2) if is_self_attr(t_, "pduData")]
    ok = len(st) == 1 and norm(st[0].value) == "%s.get_data(len(%s.pduData))" % (p, p) and norm(list(calls_in(d2))[0]) == "BVLCI.decode(self, %s)" % p
    ctx.check("BVLPDU.decode:header-then-rest", ok, where(m, d2), "header then all remaining octets")


def _count(branch, sizes):
    """(fixed octets, per-entry octets or None, payload?) of an encode branch"""
    fixed = 0
    per = None
    payload = False
    for it in branch.items:
        if it.kind == "emit":
            if it.width == "data":
                t = norm(it.expr)
                if t == "self.pduData":
                    payload = True
                elif t.endswith(".addrAddr"):
                    fixed += ADDR_OCTETS
                else:
                    return None
            else:
                fixed += it.width
        elif it.kind == "loop":
            subs = [s for s in it.sub if s.term != "raise"]
            if len(subs) != 1:
                return None
            r = _count(subs[0], sizes)
            if r is None or r[1] is not None or r[2]:
                return None
            per = (r[0], it.extra)
    return fixed, per, payload


def _own_or_pulled_up(prog, c, name):
    """the class's method, or the one a private intermediate base class (between it and BVLPDU) provides"""
    if name in c.methods:
        return c.methods[name]
    for k in prog.mro(c)[1:]:
        if k.name in ("BVLPDU", "BVLCI", "PCI", "PDUData", "object"):
            break
        if name in k.methods:
            return k.methods[name]
    return None


@rule("C09.R2", "the length each function declares equals the number of octets its encoder emits", floor=12, engines="E4 symbolic octet count")
def r2(ctx):
    prog = ctx.prog
    m = prog.module(MOD)
    for name, (fixed, entry, payload) in REF.items():
        c = prog.cls(MOD, name)
        ev = Evaluator(prog, m, c)
        e = _own_or_pulled_up(prog, c, "encode")
        init = c.methods.get("__init__")
        if e is None or init is None:
            raise AnchorMissing("%s.encode/__init__" % name)
        enc = [b for b in extract(prog, c, e, "encode") if consistent_branch(b) and b.term != "raise"]
        if len(enc) != 1:
            ctx.bad("%s:length" % name, where(m, e), "%d encode branches" % len(enc))
            continue
        cnt = _count(enc[0], None)
        if cnt is None:
            ctx.bad("%s:length" % name, where(m, e), "emitted octets could not be counted: %s" % enc[0].describe()[:200])
            continue
        fx, per, pl = cnt
        want_total = lambda n, L: 4 + fx + (per[0] * n if per else 0) + (L if pl else 0)
        ref_total = lambda n, L: 4 + sum(fixed) + (sum(entry) * n if entry else 0) + (L if payload else 0)
        problems = []
        if (fx, per[0] if per else None, pl) != (sum(fixed), sum(entry) if entry else None, payload):
            problems.append("encoder emits %d fixed + %s per entry%s, Annex J.2 prescribes %d + %s%s" % (fx, per[0] if per else None, " + payload" if pl else "", sum(fixed), sum(entry) if entry else None, " + payload" if payload else ""))
        # declared length expressions: in __init__ and (if re-computed) in encode
        sites = [("__init__", s) for t, s in stores_in(init) if is_self_attr(t, "bvlciLength")] + [("encode", s) for t, s in stores_in(e) if is_self_attr(t, "bvlciLength")]
        if not sites:
            problems.append("bvlciLength is never set")
        for where_, s in sites:
            lst_param = None
            if per:
                # the list the loop runs over is a field assigned from a ctor parameter
                fld = per[1]
                asg = [s2 for t2, s2 in stores_in(init) if norm(t2) == fld]
                lst_param = norm(asg[0].value) if asg else None
            for n in (0, 1, 3, 40):
                for L in (0, 1, 1497):
                    env = {"len(self.pduData)": L}
                    if per:
                        env["len(%s)" % per[1]] = n
                        if lst_param:
                            env["len(%s)" % lst_param] = n
                    try:
                        v = ev.value(s.value, env)
                    except NotConst as ex:
                        problems.append("%s: length expression %s not evaluable (%s)" % (where_, norm(s.value), ex))
                        break
                    if v != want_total(n, L):
                        problems.append("%s declares %s = %r for %d entries / %d payload octets, the encoder emits %d" % (where_, norm(s.value), v, n, L, want_total(n, L)))
                        break
                else:
                    continue
                break
        ctx.check("%s:length" % name, not problems, where(m, c.node), "; ".join(problems)[:500], facts={"emitted": {"fixed": fx, "per_entry": per[0] if per else None, "payload": pl}})
        if pl:
            # payload-carrying functions recompute the length at encode time (the payload is set after construction)
            re = [s for t, s in stores_in(e) if is_self_attr(t, "bvlciLength")]
            upd = [x for x in calls_in(e) if norm(x.func) == "BVLCI.update"]
            ok = len(re) == 1 and upd and re[0].lineno < upd[0].lineno
            ctx.check("%s:length-recomputed" % name, ok, where(m, e), "the length must be recomputed from the current payload before the header is copied")


def _loop_fields(loop_item, role):
    """sequence of entry-field suffixes written / read inside a table loop"""
    subs = [s for s in loop_item.sub if s.term != "raise"]
    if len(subs) != 1:
        return None
    b = subs[0]
    if role == "encode":
        lv = norm(loop_item.node.target)
        out = []
        for it in b.emits():
            t = norm(it.expr)
            out.append(t[len(lv):] if t.startswith(lv + ".") else t)
        return out
    out = []
    for r in b.reads():
        sym = r.target
        landed = None
        for it in b.items:
            if it.kind == "store" and it.expr is not None:
                t = norm(it.expr)
                if t == sym:
                    landed = "." + it.target.split(".", 1)[1]
                elif t == "Address(unpack_ip_addr(%s))" % sym:
                    landed = "." + it.target.split(".", 1)[1] + ".addrAddr"
            if it.kind == "call" and ".append(Address(unpack_ip_addr(%s)))" % sym in it.extra and landed is None:
                landed = ".addrAddr"
        if landed is None:
            # symbol substituted into a local that is appended
            for it in b.items:
                if it.kind == "call" and "Address(unpack_ip_addr(%s))" % sym in it.extra:
                    landed = ".addrAddr"
        out.append(landed)
    return out


@rule("C09.R3", "each function reads back exactly what it writes: same order, widths, fields and address width", floor=14, engines="E4 trace agreement")
def r3(ctx):
    prog = ctx.prog
    m = prog.module(MOD)
    for name, (fixed, entry, payload) in REF.items():
        c = prog.cls(MOD, name)
        e, d = _own_or_pulled_up(prog, c, "encode"), _own_or_pulled_up(prog, c, "decode")
        if e is None or d is None:
            raise AnchorMissing("%s.encode/decode" % name)
        enc = [b for b in extract(prog, c, e, "encode") if consistent_branch(b) and b.term != "raise"]
        dec = [b for b in extract(prog, c, d, "decode") if consistent_branch(b) and b.term != "raise"]
        problems = []
        if len(enc) != 1 or len(dec) != 1:
            ctx.bad("%s:trace" % name, where(m, c.node), "%d encode / %d decode branches" % (len(enc), len(dec)))
            continue
        eb, db = enc[0], dec[0]
        ei = [i for i in eb.items if i.kind in ("emit", "loop")]
        di = [i for i in db.items if i.kind in ("read", "loop")]
        if len(ei) != len(di):
            problems.append("encode has %d wire items, decode %d" % (len(ei), len(di)))
        dst = db.stores()
        sym2field = {}
        for k, v in dst.items():
            if v is None:
                continue
            t = norm(v)
            sym2field[t] = k
        p = d.args.args[1].arg
        for a, b in zip(ei, di):
            if a.kind != ("emit" if b.kind == "read" else "loop"):
                problems.append("item kinds differ: %s vs %s" % (a.text()[:60], b.text()[:60]))
                continue
            if a.kind == "emit":
                t = norm(a.expr)
                if a.width == "data":
                    if t == "self.pduData":
                        ok = b.width == "data" and norm(b.expr) == "len(%s.pduData)" % p and sym2field.get(b.target) == "self.pduData"
                        if not ok:
                            problems.append("the payload must be read as all remaining octets into self.pduData")
                    elif t.endswith(".addrAddr"):
                        fld = t[: -len(".addrAddr")]
                        ok = b.width == "data" and prog.try_const(m, b.expr) == ADDR_OCTETS and sym2field.get("Address(unpack_ip_addr(%s))" % b.target) == fld
                        if not ok:
                            problems.append("%s is written as a %d-octet B/IP address but read as %s into %s" % (t, ADDR_OCTETS, b.text(), sym2field.get("Address(unpack_ip_addr(%s))" % b.target)))
                    else:
                        problems.append("unexpected data item %s" % t)
                else:
                    if a.width != b.width:
                        problems.append("%s written with %d octets, read with %s" % (t, a.width, b.width))
                    elif sym2field.get(b.target) != t:
                        problems.append("%s written at this position, the value read there goes to %s" % (t, sym2field.get(b.target)))
            else:
                fe, fd = _loop_fields(a, "encode"), _loop_fields(b, "decode")
                we = _sig(Branch0(a)) if False else None
                subs_e = [s for s in a.sub if s.term != "raise"]
                subs_d = [s for s in b.sub if s.term != "raise"]
                if len(subs_e) != 1 or len(subs_d) != 1:
                    problems.append("table loop with several branches")
                    continue
                wenc = [i.width if i.width != "data" else ADDR_OCTETS for i in subs_e[0].emits()]
                wdec = [(i.width if i.width != "data" else prog.try_const(m, i.expr)) for i in subs_d[0].reads()]
                if wenc != wdec or wenc != entry:
                    problems.append("entry widths: written %r, read %r, Annex J.2 %r" % (wenc, wdec, entry))
                if fe != fd:
                    problems.append("entry fields: written %r, read into %r" % (fe, fd))
                if not b.extra.endswith(".pduData"):
                    problems.append("the table must be read until the frame is exhausted (loop condition %s)" % b.extra)
                resets = [i for i in db.items if i.kind == "store" and i.target == a.extra and isinstance(i.expr, ast.List) and not i.expr.elts]
                if not resets or db.items.index(resets[0]) > db.items.index(b):
                    problems.append("decode does not reset %s to an empty list before appending (entries of an earlier frame or of the shared constructor default accumulate)" % a.extra)
                apps = [i for i in subs_d[0].items if i.kind == "call" and ".append(" in i.extra]
                if not apps or not apps[-1].extra.startswith(a.extra + ".append("):
                    problems.append("entries written from %s are appended to %s" % (a.extra, apps[-1].extra.split(".append")[0] if apps else None))
        wantsig = list(fixed) + ([("loop", tuple(entry))] if entry else []) + (["payload"] if payload else [])
        gotsig = []
        for i in ei:
            if i.kind == "loop":
                gotsig.append(("loop", tuple(x.width if x.width != "data" else ADDR_OCTETS for x in [s for s in i.sub if s.term != "raise"][0].emits())))
            elif i.width == "data":
                gotsig.append("payload" if norm(i.expr) == "self.pduData" else ADDR_OCTETS)
            else:
                gotsig.append(i.width)
        if gotsig != wantsig:
            problems.append("layout %r, Annex J.2 prescribes %r" % (gotsig, wantsig))
        ctx.check("%s:trace" % name, not problems, where(m, c.node), "; ".join(problems)[:600], facts={"encode": eb.describe()[:300], "decode": db.describe()[:300]})
        for mn, pat in (("encode", "BVLCI.update(%s, self)"), ("decode", "BVLCI.update(self, %s)")):
            f = _own_or_pulled_up(prog, c, mn)
            pp = f.args.args[1].arg
            ctx.check("%s.%s:header" % (name, mn), any(norm(x) == pat % pp for x in calls_in(f)), where(m, f), "%s must copy the BVLCI with %s" % (mn, pat % pp))
    # pack_ip_addr <-> unpack_ip_addr
    pm = prog.module("pdu")
    pk, up = pm.functions.get("pack_ip_addr"), pm.functions.get("unpack_ip_addr")
    if pk is None or up is None:
        raise AnchorMissing("pdu.pack_ip_addr/unpack_ip_addr")
    import struct
    ret = subst_locals(pk, [r for r in walk_shallow(pk) if isinstance(r, ast.Return)][0].value)
    ok = isinstance(ret, ast.BinOp) and isinstance(ret.op, ast.Add) and isinstance(ret.left, ast.Call) and isinstance(ret.right, ast.Call) \
        and norm(ret.left.func) == "socket.inet_aton" and norm(ret.right.func) == "struct.pack"
    fmt_p = prog.try_const(pm, ret.right.args[0]) if ok else None
    retu = subst_locals(up, [r for r in walk_shallow(up) if isinstance(r, ast.Return)][0].value)
    oku = isinstance(retu, ast.Tuple) and len(retu.elts) == 2 and isinstance(retu.elts[0], ast.Call) and norm(retu.elts[0].func) == "socket.inet_ntoa"
    fmt_u = None
    sl = []
    if oku:
        for n in ast.walk(retu):
            if isinstance(n, ast.Call) and norm(n.func) == "struct.unpack":
                fmt_u = prog.try_const(pm, n.args[0])
            if isinstance(n, ast.Subscript) and isinstance(n.slice, ast.Slice):
                sl.append((prog.try_const(pm, n.slice.lower), prog.try_const(pm, n.slice.upper)))
    good = ok and oku and fmt_p == fmt_u and fmt_p in ("!H", ">H") and sorted(sl) == [(0, 4), (4, 6)] and struct.calcsize(fmt_p) + 4 == ADDR_OCTETS
    ctx.check("pack_ip_addr<->unpack_ip_addr", good, where(pm, pk), "IPv4 (4 octets) + port (16 bit, network order) must be packed and unpacked with the same format and the slices [0:4] / [4:6] (pack %r, unpack %r, slices %r)" % (fmt_p, fmt_u, sl))
    if ok:
        # port reduced to 16 bit (refusing would also be fine; a plain pack raises struct.error)
        arg = ret.right.args[1]
        ev = Evaluator(prog, pm)
        okm, cx = same_function(ev, arg, grid(port=[0, 1, 47808, 65535]), lambda e_: e_["port"])
        ctx.check("pack_ip_addr:port", okm, where(pm, pk), "ports 0..65535 must be packed unchanged")


class Branch0:
    def __init__(self, it):
        self.items = [it]


@rule("C09.R4", "function registry: twelve classes, unique codes equal to the BVLCI constants, stored by the constructors, used by the codec", floor=12, engines="E3")
def r4(ctx):
    prog = ctx.prog
    m = prog.module(MOD)
    bv = prog.cls(MOD, "BVLCI")
    T = Tables(prog)
    reg = T.registry_calls(MOD, "register_bvlpdu_type")
    seen = {}
    names = set()
    for k, text, st in reg:
        if k is None:
            ctx.bad("bvl_pdu_types:%s" % text, where(m, st), "registered name does not resolve")
            continue
        names.add(k.name)
        mt = prog.try_const(k.module, k.attrs.get("messageType"), k) if "messageType" in k.attrs else None
        ctx.check("%s:messageType" % k.name, isinstance(mt, int) and mt not in seen, where(m, st), "function code %r missing or already used by %s" % (mt, seen.get(mt)))
        seen[mt] = k.name
        ctx.check("%s:code" % k.name, FUNC_CODES.get(k.name) == mt, where(m, st), "%s must be function %r of Annex J.2 (found %r)" % (k.name, FUNC_CODES.get(k.name), mt))
        cname = k.name[0].lower() + k.name[1:]
        cv = prog.try_const(m, bv.attrs.get(cname), bv) if cname in bv.attrs else None
        ctx.check("%s:constant" % k.name, cv == mt, where(m, st), "BVLCI.%s is %r but %s.messageType is %r" % (cname, cv, k.name, mt))
        init = k.methods.get("__init__")
        st2 = [s for t, s in stores_in(init) if is_self_attr(t, "bvlciFunction")] if init else []
        v = prog.try_const(m, st2[0].value, k) if len(st2) == 1 else None
        ctx.check("%s:ctor" % k.name, v == mt, where(m, init or k.node), "the constructor must set bvlciFunction to the class's code (found %r)" % (v,))
    ctx.check("bvl_pdu_types:complete", names == set(REF), where(m, m.tree.body[0]), "registered %r" % sorted(names ^ set(REF)))
    f = m.functions.get("register_bvlpdu_type")
    if f is None:
        raise AnchorMissing("bvll.register_bvlpdu_type")
    st = [s for s in walk_shallow(f) if isinstance(s, ast.Assign)]
    p = f.args.args[0].arg
    ctx.check("register_bvlpdu_type:keyed", len(st) == 1 and norm(st[0].targets[0]) == "bvl_pdu_types[%s.messageType]" % p and norm(st[0].value) == p, where(m, f), "classes must be stored under their function code")
    # the codec looks the class up by the decoded function and lets it decode the generic PDU
    aj = prog.cls("bvllservice", "AnnexJCodec")
    f = aj.methods.get("confirmation")
    if f is None:
        raise AnchorMissing("AnnexJCodec.confirmation")
    subs = [n for n in walk_shallow(f) if isinstance(n, ast.Subscript) and norm(n.value) == "bvl_pdu_types"]
    ok = len(subs) == 1 and norm(subst_locals(f, subs[0].slice)).endswith(".bvlciFunction")
    calls = [norm(x.func) for x in calls_in(f)]
    ok = ok and "BVLPDU" in calls and calls.count("self.response") == 1
    ctx.check("AnnexJCodec.confirmation:dispatch", ok, where(aj.module, f), "a received frame must be decoded generically, dispatched by bvlciFunction and passed up once")
    f = aj.methods.get("indication")
    calls = [norm(x.func) for x in calls_in(f)] if f else []
    ctx.check("AnnexJCodec.indication:encodes", calls.count("self.request") == 1 and "BVLPDU" in calls and "PDU" in calls, where(aj.module, f or aj.node), "an outgoing message must be encoded into a BVLPDU, then a PDU, and sent once")


@rule("C09.R5", "a truncated frame is refused: every multi-octet read of the decoders goes through the bounded, consuming PDUData reads", floor=8, engines="E1 facts + E5 (shared with C02.R2)")
def r5_reads(ctx):
    from .c02 import pdudata_reads
    pdudata_reads(ctx)


@rule("C09.R6", "every port a frame can carry (0..65535) is accepted by the address constructor the decoders use", floor=1, engines="E1 facts + E5 (shared with C18.R8)")
def r6_ports(ctx):
    from .c18 import ports_accepted
    ports_accepted(ctx)
