"""C19 - routing knowledge stays coherent: no unresolved names, the two
indexes (routers, path_info) move together, displacement before adoption,
renumbering, learning sites."""
import ast
import builtins
import symtable

from ..report import rule
from ..model import norm, NotConst, calls_in, stores_in, ShapeError, AnchorMissing, is_self_attr
from ..paths import enumerate_paths, facts_at, walk_shallow, enclosing_stmt, enclosing_loops
from ..guards import Evaluator, atom_texts, atoms_of_facts
from .common import where, path_nodes, body_paths, consistent, feasible

MOD = "netservice"


def unresolved_names(module):
    """(function qualname, name, lineno) for global references that nothing defines (pyflakes' undefined-name)"""
    try:
        top = symtable.symtable(module.src, module.path, "exec")
    except SyntaxError as e:
        raise ShapeError("symtable: %s" % e)
    defined = {s.get_name() for s in top.get_symbols() if s.is_assigned() or s.is_imported() or s.is_namespace() or s.is_parameter()}
    has_star = any(isinstance(n, ast.ImportFrom) and any(a.name == "*" for a in n.names) for n in ast.walk(module.raw_tree))
    # names created through globals()[...] or the debugging decorators
    extra = {"__file__", "__name__", "__doc__", "__package__", "__builtins__", "__spec__", "__loader__"}
    out = []

    def rec(tab, qual):
        for child in tab.get_children():
            q = "%s.%s" % (qual, child.get_name()) if qual else child.get_name()
            if child.get_type() == "function":
                for s in child.get_symbols():
                    if s.is_referenced() and s.is_global() and not s.is_assigned():
                        n = s.get_name()
                        if n in defined or n in extra or hasattr(builtins, n) or has_star:
                            continue
                        out.append((q, n, child.get_lineno()))
            rec(child, q)
    rec(top, "")
    return out


@rule("C19.R1", "every name the routing cache (and the rest of the package) reads is bound somewhere", floor=30, engines="symtable scope resolution")
def r1(ctx):
    prog = ctx.prog
    nmod = 0
    for mn, m in sorted(prog.modules.items()):
        if mn.startswith(("bsll", "console", "tcp", "udp")):
            continue
        nmod += 1
        bad = unresolved_names(m)
        byfn = {}
        for q, n, ln in bad:
            byfn.setdefault(q, []).append(n)
        for q, names in byfn.items():
            ctx.bad("%s.%s:unbound[%s]" % (mn, q, ",".join(sorted(set(names)))), "%s:%d" % (m.relpath, [ln for qq, n, ln in bad if qq == q][0]),
                    "reads %s, which is never bound (not a parameter, local, module name, import or builtin): NameError as soon as the path executes" % sorted(set(names)))
        ctx.ok("%s:resolved" % mn, m.relpath + ":1")
    ctx.count("modules", nmod)
    c = prog.cls(MOD, "RouterInfoCache")
    for fn in ("update_router_info", "delete_router_info", "update_source_network", "get_router_info"):
        if fn not in c.methods:
            raise AnchorMissing("RouterInfoCache.%s" % fn)


def _loop_bodies(f):
    return [l for l in walk_shallow(f) if isinstance(l, ast.For)]


def record_snet_not_a_key(ctx):
    """(C19.R6, also C06.R8) renumbering re-keys the router map and the path index but leaves the records' own `snet`
    field as it was when the router was learned: that field must not be read as a network number anywhere (unless
    update_source_network refreshes it on the records it moves)"""
    prog = ctx.prog
    m = prog.module(MOD)
    ri = prog.cls(MOD, "RouterInfo")
    cache = prog.cls(MOD, "RouterInfoCache")
    init = ri.methods.get("__init__")
    st = [s_ for t_, s_ in stores_in(init) if is_self_attr(t_, "snet")] if init else []
    ctx.check("RouterInfo.snet:set-by-constructor", len(st) == 1, where(m, init or ri.node), "the record remembers the network it was learned on")
    usn = cache.methods.get("update_source_network")
    if usn is None:
        raise AnchorMissing("RouterInfoCache.update_source_network")
    refreshed = any(isinstance(n, ast.Attribute) and n.attr == "snet" and isinstance(n.ctx, ast.Store) for n in ast.walk(usn))
    ctx.check("RouterInfoCache.update_source_network:record-field", True, where(m, usn), "records' snet field refreshed on renumbering: %s" % refreshed)
    k = 0
    for n in ast.walk(m.tree):
        if isinstance(n, ast.Attribute) and n.attr == "snet" and isinstance(n.ctx, ast.Load) and not (isinstance(n.value, ast.Name) and n.value.id == "self" and _inside_class(n, ri)):
            k += 1
            ctx.check("RouterInfo.snet:read@%d" % k, refreshed, where(m, n),
                      "%s is used as a network number, but a Network-Number-Is renumbering moves the record to another network without updating this field: the value is stale afterwards" % norm(n))


def _inside_class(node, cls):
    p = getattr(node, "_parent", None)
    while p is not None:
        if p is cls.node:
            return True
        p = getattr(p, "_parent", None)
    return False


@rule("C19.R6", "a router record's own source-network field is not used as a key: renumbering does not refresh it", floor=2, engines="E0 who-reads")
def r6(ctx):
    record_snet_not_a_key(ctx)


@rule("C19.R2", "the router map and the path index are updated together: a path is recorded with its router's destination entry, dropped with it, and a router record disappears only when it has no destinations left",
      floor=6, engines="E1 paths over the mutators")
def r2(ctx):
    prog = ctx.prog
    c = prog.cls(MOD, "RouterInfoCache")
    m = c.module
    for fname in ("update_router_info", "delete_router_info"):
        f = c.methods[fname]
        ev = Evaluator(prog, m, c)
        # per innermost loop body path: path_info and dnets change together
        for lp in _loop_bodies(f):
            if any(isinstance(x, ast.For) for st in lp.body for x in ast.walk(st)):
                continue
            for p in body_paths(lp.body):
                if not consistent(p.conds()):
                    continue
                nodes = path_nodes(p)
                pi_store = [n for n in nodes if isinstance(n, ast.Assign) and norm(n.targets[0]).startswith("self.path_info[")]
                pi_del = [n for n in nodes if isinstance(n, ast.Delete) and norm(n.targets[0]).startswith("self.path_info[")] + \
                    [n for n in nodes if isinstance(n, ast.Call) and isinstance(n.func, ast.Attribute) and n.func.attr == "pop" and norm(n.func.value) == "self.path_info"]
                dn_store = [n for n in nodes if isinstance(n, ast.Assign) and ".dnets[" in norm(n.targets[0])]
                dn_del = [n for n in nodes if isinstance(n, ast.Delete) and ".dnets[" in norm(n.targets[0])] + \
                    [n for n in nodes if isinstance(n, ast.Call) and isinstance(n.func, ast.Attribute) and n.func.attr == "pop" and norm(n.func.value).endswith(".dnets")]
                for s in pi_store:
                    r = norm(s.value)
                    ok = any(norm(d.targets[0]).startswith(r + ".dnets[") for d in dn_store)
                    ctx.check("%s:path-recorded-with-destination@%d" % (fname, _ord(f, lp)), ok, where(m, s), "a path to %s is recorded without recording the destination in that router's dnets" % r)
                if pi_del or dn_del:
                    # deleting the paths of a router that is removed wholesale is checked below
                    whole = _removes_whole_router_after(f, lp)
                    ok = len(pi_del) == len(dn_del) or (whole and not dn_del)
                    ctx.check("%s:path-dropped-with-destination@%d" % (fname, _ord(f, lp)), ok, where(m, (pi_del + dn_del)[0]),
                              "a loop pass deletes %d path entries but %d destination entries" % (len(pi_del), len(dn_del)))
        # every path key is (the network the router map is indexed by in this call, destination); an entry is dropped
        # only for a destination the edited router owns
        rkeys = _router_map_keys(f)
        for acc, key, node in _path_accesses(f):
            if not (isinstance(key, ast.Tuple) and len(key.elts) == 2):
                ctx.check("%s:path-key-shape@%d" % (fname, _ord_call(f, node)), False, where(m, node), "path index accessed with %s instead of a (source network, destination) pair" % norm(key))
                continue
            ctx.check("%s:path-key-network[%s]@%d" % (fname, acc, _ord_call(f, node)), norm(key.elts[0]) in rkeys, where(m, node),
                      "the path index is accessed under network %s but the router map of this call is indexed by %s: after a renumbering the two differ and the wrong entry is touched" % (norm(key.elts[0]), sorted(rkeys)))
            if acc in ("del", "pop"):
                d_txt = norm(key.elts[1])
                owned = False
                for a, pol in atoms_of_facts(facts_at(node)):
                    if pol and isinstance(a, ast.Compare) and len(a.ops) == 1 and isinstance(a.ops[0], ast.In) and norm(a.left) == d_txt \
                            and isinstance(a.comparators[0], ast.Attribute) and a.comparators[0].attr == "dnets":
                        owned = True
                for lp in enclosing_loops(node):
                    it = lp.iter if isinstance(lp, ast.For) else None
                    if isinstance(it, ast.Call) and norm(it.func) in ("list", "tuple", "sorted", "set") and len(it.args) == 1:
                        it = it.args[0]
                    if isinstance(it, ast.Attribute) and it.attr == "dnets" and isinstance(lp.target, ast.Name) and lp.target.id == d_txt:
                        owned = True
                ctx.check("%s:path-dropped-only-if-owned@%d" % (fname, _ord_call(f, node)), owned, where(m, node),
                          "the path to %s is removed without testing that the router being edited still owns that destination: a path that now belongs to another router disappears" % d_txt)
        # router records
        for d in [n for n in walk_shallow(f) if isinstance(n, ast.Delete) and norm(n.targets[0]).startswith("self.routers[")]:
            fa = facts_at(d)
            at = atom_texts(fa)
            keys = {norm(n) for x in fa for n in ast.walk(x.test) if isinstance(n, ast.Attribute) and n.attr == "dnets"}
            guarded = any(not ev.may_hold(fa, {k: True, "len(%s)" % k: 2}) and ev.may_hold(fa, {k: False, "len(%s)" % k: 0}) for k in keys)
            covered = False
            if not guarded:
                # the loop just before must run over all destinations of that router and delete each of its paths
                blk = getattr(d, "_parent", None)
                for fld in ("body", "orelse"):
                    lst = getattr(blk, fld, None)
                    if isinstance(lst, list) and d in lst:
                        prev = [s for s in lst[:lst.index(d)] if isinstance(s, ast.For)]
                        if prev:
                            it = prev[-1].iter
                            if isinstance(it, ast.Call) and norm(it.func) in ("list", "tuple", "sorted", "set") and len(it.args) == 1:
                                it = it.args[0]
                            if isinstance(it, ast.Call) and isinstance(it.func, ast.Attribute) and it.func.attr == "keys" and not it.args:
                                it = it.func.value
                            covered = isinstance(it, ast.Attribute) and it.attr == "dnets"
            ctx.check("%s:router-dropped-only-when-empty@%d" % (fname, _ord(f, d)), guarded or covered, where(m, d),
                      "the router record is deleted although it may still own destinations whose path entries stay behind (lookups then lead to a forgotten router)",
                      facts={"guards": [repr(x) for x in fa]})


def _router_map_keys(f):
    """texts used to index self.routers in this function"""
    out = set()
    for n in ast.walk(f):
        if isinstance(n, ast.Subscript) and norm(n.value) == "self.routers":
            out.add(norm(n.slice))
        if isinstance(n, ast.Call) and isinstance(n.func, ast.Attribute) and norm(n.func.value) == "self.routers" and n.func.attr in ("get", "pop", "setdefault") and n.args:
            out.add(norm(n.args[0]))
        if isinstance(n, ast.Compare) and len(n.ops) == 1 and isinstance(n.ops[0], (ast.In, ast.NotIn)) and norm(n.comparators[0]) == "self.routers":
            out.add(norm(n.left))
    return out


def _path_accesses(f):
    """(kind, key expr, node) for every access to self.path_info: store / del / load / pop / get"""
    out = []
    for n in ast.walk(f):
        if isinstance(n, ast.Subscript) and norm(n.value) == "self.path_info":
            kind = {ast.Store: "store", ast.Del: "del", ast.Load: "load"}[type(n.ctx)]
            out.append((kind, n.slice, n))
        if isinstance(n, ast.Call) and isinstance(n.func, ast.Attribute) and norm(n.func.value) == "self.path_info" and n.func.attr in ("get", "pop", "setdefault") and n.args:
            out.append((n.func.attr, n.args[0], n))
    out.sort(key=lambda t: (t[2].lineno, t[2].col_offset))
    return out


def _ord_call(f, node):
    acc = [x[2] for x in _path_accesses(f)]
    return acc.index(node) + 1 if node in acc else 0


def _ord(f, node):
    """ordinal of the node among nodes of its type in the function (stable under reformatting)"""
    same = [n for n in walk_shallow(f) if type(n) is type(node)]
    return same.index(node) + 1 if node in same else 0


def _removes_whole_router_after(f, lp):
    blk = getattr(lp, "_parent", None)
    for fld in ("body", "orelse"):
        lst = getattr(blk, fld, None)
        if isinstance(lst, list) and lp in lst:
            for s in lst[lst.index(lp) + 1:]:
                if isinstance(s, ast.Delete) and norm(s.targets[0]).startswith("self.routers["):
                    return True
    return False


@rule("C19.R3", "a newer announcement displaces the older router before the announcing router adopts the destination", floor=2, engines="E1")
def r3(ctx):
    prog = ctx.prog
    c = prog.cls(MOD, "RouterInfoCache")
    f = c.methods["update_router_info"]
    m = c.module
    dels = [n for n in walk_shallow(f) if isinstance(n, ast.Delete)]
    stores = [n for n in walk_shallow(f) if isinstance(n, ast.Assign) and (norm(n.targets[0]).startswith("self.path_info[") or ".dnets[" in norm(n.targets[0]))]
    ok = bool(dels) and bool(stores) and max(d.lineno for d in dels) < min(s.lineno for s in stores)
    ctx.check("update_router_info:displace-then-adopt", ok, where(m, f), "the entries of the displaced router must be removed before the new router's entries are written (otherwise the fresh path entry is deleted again)")
    # competitors: found through the path index, excluding the announcing router itself
    srcs = [s for s in walk_shallow(f) if isinstance(s, ast.Assign) and isinstance(s.value, ast.Call) and norm(s.value.func) == "self.path_info.get"]
    ok = len(srcs) == 1
    if ok:
        var = norm(srcs[0].targets[0])
        adds = [x for x in calls_in(f) if isinstance(x.func, ast.Attribute) and x.func.attr == "add" and x.args and norm(x.args[0]) == var]
        ok = len(adds) == 1
        if ok:
            at = atom_texts(facts_at(adds[0]))
            ok = any(" is not " in t and p for t, p in at) and any(t == var and p for t, p in at)
    ctx.check("update_router_info:competitors", ok, where(m, f), "competing routers are those the path index currently names for an announced destination, other than the announcing router")
    # the new record is reachable through both indexes
    news = [x for x in calls_in(f) if norm(x.func) == "RouterInfo"]
    ok = len(news) == 1
    if ok:
        st = enclosing_stmt(news[0])
        var = norm(st.targets[0])
        reg = [s for s in walk_shallow(f) if isinstance(s, ast.Assign) and norm(s.targets[0]).startswith("self.routers[") and var in norm(s.value)]
        # ... under the keys the map is read with: routers[source network][router address]
        sn, ad = f.args.args[1].arg, f.args.args[2].arg
        ok = len(reg) >= 1 and all(
            (norm(s.targets[0]) == "self.routers[%s][%s]" % (sn, ad) and norm(s.value) == var)
            or (norm(s.targets[0]) == "self.routers[%s]" % sn and isinstance(s.value, ast.Dict) and len(s.value.keys) == 1 and norm(s.value.keys[0]) == ad and norm(s.value.values[0]) == var)
            for s in reg)
        rd = [x for x in calls_in(f) if isinstance(x.func, ast.Attribute) and x.func.attr == "get" and norm(x.func.value).startswith("self.routers.get(")]
        ok = ok and all(norm(x.func.value.args[0]) == sn and norm(x.args[0]) == ad for x in rd)
    ctx.check("update_router_info:new-router-registered", ok, where(m, f), "a newly learned router must be entered in the router map")
    g = c.methods["get_router_info"]
    cs = [x for x in calls_in(g) if norm(x.func) == "self.path_info.get"]
    a = [x.arg for x in g.args.args[1:]]
    ok = len(cs) == 1 and isinstance(cs[0].args[0], ast.Tuple) and [norm(e) for e in cs[0].args[0].elts] == a
    ctx.check("get_router_info:lookup-key", ok, where(m, g), "lookups must use the key (source network, destination network)")


@rule("C19.R4", "renumbering a source network moves the router map and re-keys every path of every moved router", floor=2, engines="E1")
def r4(ctx):
    prog = ctx.prog
    c = prog.cls(MOD, "RouterInfoCache")
    f = c.methods["update_source_network"]
    m = c.module
    old, new = f.args.args[1].arg, f.args.args[2].arg
    from .common import subst_locals
    mv = [s for s in walk_shallow(f) if isinstance(s, ast.Assign) and any(norm(t) == "self.routers[%s]" % new for t in s.targets)
          and norm(subst_locals(f, s.value)) == "self.routers.pop(%s)" % old]
    ctx.check("update_source_network:moves-routers", len(mv) == 1, where(m, f), "the routers of the old network number must be moved to the new one")
    def key_of(sub):
        if isinstance(sub, ast.Subscript) and norm(sub.value) == "self.path_info" and isinstance(sub.slice, ast.Tuple) and len(sub.slice.elts) == 2:
            return [norm(e) for e in sub.slice.elts]
        return None
    rk = [s for s in walk_shallow(f) if isinstance(s, ast.Assign) and key_of(s.targets[0]) and key_of(s.targets[0])[0] == new
          and isinstance(s.value, ast.Call) and norm(s.value.func) == "self.path_info.pop"]
    ok = len(rk) == 1
    if ok:
        loops = enclosing_loops(rk[0])
        its = [norm(l.iter) for l in loops]
        ok = len(loops) == 2 and any(".dnets" in i for i in its) and any(".items()" in i or ".values()" in i for i in its)
        d = key_of(rk[0].targets[0])[1]
        a = rk[0].value.args[0] if rk[0].value.args else None
        ok = ok and isinstance(a, ast.Tuple) and [norm(e) for e in a.elts] == [old, d]
    ctx.check("update_source_network:rekeys-paths", ok, where(m, f), "every (old, dnet) path of every moved router must become (new, dnet)")


@rule("C19.R5", "routing knowledge is learned from I-Am-Router announcements and from the SADR of routed traffic, keyed by the arrival network and the link-layer source", floor=4, engines="E0/E1")
def r5(ctx):
    prog = ctx.prog
    nse = prog.cls(MOD, "NetworkServiceElement")
    m = nse.module
    f = nse.methods.get("IAmRouterToNetwork")
    if f is None:
        raise AnchorMissing("NetworkServiceElement.IAmRouterToNetwork")
    ad, np = f.args.args[1].arg, f.args.args[2].arg
    cs = [x for x in calls_in(f) if isinstance(x.func, ast.Attribute) and x.func.attr in ("update_router_references", "update_router_info")]
    ok = len(cs) == 1 and [norm(a) for a in cs[0].args] == ["%s.adapterNet" % ad, "%s.pduSource" % np, "%s.iartnNetworkList" % np] and not facts_at(cs[0])
    ctx.check("NSE.IAmRouterToNetwork:learns", ok, where(m, f), "every announcement must update the cache with (arrival network, announcing router, announced networks)")
    sap = prog.cls(MOD, "NetworkServiceAccessPoint")
    g = sap.methods.get("update_router_references")
    cs = [x for x in calls_in(g) if norm(x.func) == "self.router_info_cache.update_router_info"] if g else []
    ok = len(cs) == 1 and [norm(a) for a in cs[0].args] == [a.arg for a in g.args.args[1:4]]
    ctx.check("NSAP.update_router_references:delegates", ok, where(m, g or sap.node), "must hand (snet, address, dnets) to the cache unchanged")
    p = sap.methods.get("process_npdu")
    if p is None:
        raise AnchorMissing("NetworkServiceAccessPoint.process_npdu")
    ad, np = p.args.args[1].arg, p.args.args[2].arg
    ev = Evaluator(prog, m, sap)
    cs = [x for x in calls_in(p) if norm(x.func) == "self.router_info_cache.update_router_info"]
    ok = len(cs) == 1
    if ok:
        args = [norm(a) for a in cs[0].args]
        ok = args[0] == "%s.adapterNet" % ad and args[1] == "%s.pduSource" % np and args[2] in ("[snet]", "[%s.npduSADR.addrNet]" % np)
        fa = facts_at(cs[0])
        at = atom_texts(fa)
        ok = ok and any(t.endswith(".npduSADR") and pol for t, pol in at)
        ok = ok and any(t in ("snet in self.adapters", "%s.npduSADR.addrNet in self.adapters" % np) and not pol for t, pol in at)
    ctx.check("NSAP.process_npdu:learns-from-sadr", ok, where(m, p), "a routed packet teaches (arrival network, link source) -> [SNET], unless SNET is a directly attached network")
    if len(cs) == 1:
        # nothing but "there is a source address" and "its network is not directly attached" may stand between a routed
        # packet and the update: any other condition (what the cache says, what was seen last, a counter) makes knowledge
        # that was changed in between - by an I-Am-Router, a deletion, a renumbering - survive the traffic that contradicts it
        stale = [repr(z) for z in facts_at(cs[0]) if z.origin != "loop" and not any(k_ in norm(z.test) for k_ in ("npduSADR", "in self.adapters", "self.adapters"))
                 or "router_info_cache" in norm(z.test) or "get_router_info" in norm(z.test) or "path_info" in norm(z.test)]
        ctx.check("NSAP.process_npdu:relearns-every-time", not stale, where(m, cs[0]),
                  "the return path is learned only when the cache says %s: an entry that is wrong (or was poisoned) is then never corrected by the traffic that proves it wrong" % stale)
    # NetworkNumberIs renumbers the cache before the adapter map
    h = nse.methods.get("NetworkNumberIs")
    if h is None:
        raise AnchorMissing("NetworkServiceElement.NetworkNumberIs")
    # decided on the paths of the handler: wherever the cache is re-keyed, the old adapter entry is deleted, the number is
    # stored on the adapter and the adapter is entered under the new number, in that order; and the re-keying happens
    # for an unknown network and for a learned network that differs, not for a matching or a configured one
    from ..paths import enumerate_paths as _ep
    a_, n_ = h.args.args[1].arg, h.args.args[2].arg
    evh = Evaluator(prog, m, nse)
    hp = [p_ for p_ in _ep(h) if p_.term != "raise"]
    ok = True
    n_up = 0
    for p_ in hp:
        seq = []
        for e in p_.events:
            if e.kind != "stmt":
                continue
            nd = e.node
            if any(norm(x.func).endswith("router_info_cache.update_source_network") for x in calls_in(nd)):
                u = [x for x in calls_in(nd) if norm(x.func).endswith("router_info_cache.update_source_network")][0]
                seq.append("rekey" if len(u.args) == 2 and norm(u.args[1]) == "%s.nniNet" % n_ else "rekey?")
            elif isinstance(nd, ast.Delete) and ".adapters[" in norm(nd):
                seq.append("del")
            elif isinstance(nd, ast.Assign) and norm(nd.targets[0]) == "%s.adapterNet" % a_:
                seq.append("number" if norm(nd.value) == "%s.nniNet" % n_ else "number?")
            elif isinstance(nd, ast.Assign) and ".adapters[" in norm(nd.targets[0]):
                seq.append("enter" if norm(nd.value) == a_ else "enter?")
        if seq:
            n_up += 1
            ok = ok and seq == ["rekey", "del", "number", "enter"]
    ok = ok and n_up >= 1
    base_env = {"%s.pduDestination.addrType" % n_: prog.try_const(m, ast.parse("Address.localBroadcastAddr", mode="eval").body)}
    for name_, env_, want in (("unknown", {"%s.adapterNet is None" % a_: True}, True),
                              ("learned-differs", {"%s.adapterNet is None" % a_: False, "%s.adapterNet == %s.nniNet" % (a_, n_): False, "%s.adapterNetConfigured" % a_: 0}, True),
                              ("matches", {"%s.adapterNet is None" % a_: False, "%s.adapterNet == %s.nniNet" % (a_, n_): True}, False),
                              ("configured-differs", {"%s.adapterNet is None" % a_: False, "%s.adapterNet == %s.nniNet" % (a_, n_): False, "%s.adapterNetConfigured" % a_: 1}, False)):
        e_ = dict(base_env)
        e_.update(env_)
        fe = [p_ for p_ in hp if feasible(p_, evh, e_)]
        does = [any(e.kind == "stmt" and any(norm(x.func).endswith("update_source_network") for x in calls_in(e.node)) for e in p_.events) for p_ in fe]
        ok = ok and bool(fe) and (all(does) if want else not any(does))
    ctx.check("NSE.NetworkNumberIs:renumbers", ok, where(m, h), "learning the network number must re-key the cache and the adapter map and store the number on the adapter")
