from .variants import M, B

A = "appservice.py"
# --- R1
M("C04", "no-response-on-timeout", A,
  "            abort = self.abort(AbortReason.noResponse)\n            self.response(abort)\n\n    def await_confirmation(",
  "            abort = self.abort(AbortReason.noResponse)\n\n    def await_confirmation(",
  "C04.R1", "segment retry exhaustion aborts without telling the application")
M("C04", "response-without-terminal", A,
  "            self.set_state(COMPLETED)\n            self.response(apdu)\n\n        elif (apdu.apduType == ComplexAckPDU.pduType):\n            if _debug: ClientSSM._debug(\"    - complex ack\")\n\n            # if the response is not segmented, we're done\n            if not apdu.apduSeg:",
  "            self.response(apdu)\n\n        elif (apdu.apduType == ComplexAckPDU.pduType):\n            if _debug: ClientSSM._debug(\"    - complex ack\")\n\n            # if the response is not segmented, we're done\n            if not apdu.apduSeg:",
  "C04.R1", "simple ack delivered but transaction stays live (timer later delivers a second outcome)")
M("C04", "double-response", A,
  "                self.set_state(COMPLETED)\n                self.response(apdu)\n\n            elif self.segmentationSupported not in",
  "                self.set_state(COMPLETED)\n                self.response(apdu)\n                self.response(apdu)\n\n            elif self.segmentationSupported not in",
  "C04.R1", "unsegmented complex ack delivered twice")
M("C04", "abort-no-terminal", A,
  "        # change the state to aborted\n        self.set_state(ABORTED)\n\n        # build an abort PDU to return\n        abort_pdu = AbortPDU(False, self.invokeID, reason)",
  "        # build an abort PDU to return\n        abort_pdu = AbortPDU(False, self.invokeID, reason)",
  "C04.R1", "client abort() no longer enters ABORTED")
# --- R2
M("C04", "server-complete-no-send", A,
  "            if self.segmentCount == 1:\n                self.response(apdu)\n                self.set_state(COMPLETED)",
  "            if self.segmentCount == 1:\n                self.set_state(COMPLETED)",
  "C04.R2", "unsegmented complex ack never sent")
# --- R3
M("C04", "terminal-not-final", A,
  "if (self.state == COMPLETED) or (self.state == ABORTED):", "if (self.state == COMPLETED):", "C04.R3", "ABORTED can be left again")
M("C04", "no-stop-timer", A,
  "        # stop any current timer\n        self.stop_timer()\n", "", "C04.R3", "timer keeps running over a state change")
M("C04", "client-no-unregister", A,
  "            self.ssmSAP.clientTransactions.remove(self)\n", "            pass\n", "C04.R3", "finished client transaction stays registered")
M("C04", "server-no-release", A,
  "                self.ssmSAP.deviceInfoCache.release(self.device_info)", "                pass", "C04.R3", nth=2, of=2, what="device info reference leaked")
M("C04", "unregister-only-completed", A,
  "        if (newState == COMPLETED) or (newState == ABORTED):\n            if _debug: ServerSSM._debug(\"    - remove from active transactions\")",
  "        if (newState == COMPLETED):\n            if _debug: ServerSSM._debug(\"    - remove from active transactions\")",
  "C04.R3", "aborted server transactions are not removed")
M("C04", "direct-state-write", A,
  "            abort = self.abort(AbortReason.serverTimeout)\n            self.request(abort)".replace("            ", "        "),
  "        abort = self.abort(AbortReason.serverTimeout)\n        self.state = IDLE\n        self.request(abort)", "C04.R3", "state written outside set_state")
# --- R4
M("C04", "wait-without-timer", A,
  "            self.set_state(AWAIT_CONFIRMATION, self.apduTimeout)\n        else:", "            self.set_state(AWAIT_CONFIRMATION)\n        else:",
  "C04.R4", "AWAIT_CONFIRMATION entered without a timer: silence is never detected")
M("C04", "dispatch-dropped", A,
  "        elif self.state == SEGMENTED_CONFIRMATION:\n            self.segmented_confirmation_timeout()\n", "", "C04.R4", "segmented confirmation timeout not dispatched")
M("C04", "dispatch-swapped", A,
  "        if self.state == SEGMENTED_REQUEST:\n            self.segmented_request_timeout()\n        elif self.state == AWAIT_RESPONSE:\n            self.await_response_timeout()",
  "        if self.state == SEGMENTED_REQUEST:\n            self.await_response_timeout()\n        elif self.state == AWAIT_RESPONSE:\n            self.segmented_request_timeout()",
  "C04.R4", "server timeout handlers swapped")
# --- R5
M("C04", "retry-not-counted", A,
  "            self.retryCount += 1\n", "", "C04.R5", "retries unbounded")
M("C04", "retry-off-by-one", A,
  "        if self.retryCount < self.numberOfApduRetries:", "        if self.retryCount <= self.numberOfApduRetries:", "C04.R5", "one retry too many")
M("C04", "retry-count-not-restored", A,
  "            self.retryCount = saveCount\n", "", "C04.R5", "indication() zeroes the counter: endless retries")
M("C04", "server-retry-not-counted", A,
  "            self.segmentRetryCount += 1\n            self.start_timer(self.segmentTimeout)\n\n            # no segment ack yet", "            self.start_timer(self.segmentTimeout)\n\n            # no segment ack yet", "C04.R5", "server segment retries unbounded")
M("C04", "complete-not-idempotent", "iocb.py",
  "        elif iocb.ioState == ABORTED:\n            pass\n\n        else:\n            # change the state\n            iocb.ioState = COMPLETED",
  "        else:\n            # change the state\n            iocb.ioState = COMPLETED", "C04.R6", "a timed-out (aborted) block is completed again by a late reply")
M("C04", "active-not-cleared", "iocb.py",
  "        # no longer an active iocb\n        self.active_iocb = None\n\n        # check to see if we should wait a bit",
  "        # check to see if we should wait a bit", "C04.R6", "active block not cleared after completion")
M("C04", "queue-not-advanced", "iocb.py",
  "        # look for more to do\n        deferred(IOQController._trigger, self)\n\n    def _trigger", "    def _trigger", "C04.R6", "abort of the active block never starts the next one")
M("C04", "timeout-left-armed", "iocb.py",
  "        if self.ioTimeout:\n            if _debug: IOCB._debug(\"    - cancel timeout\")\n            self.ioTimeout.suspend_task()\n\n        # set the completion event",
  "        # set the completion event", "C04.R6", "timeout task survives completion")
M("C04", "error-completes", "app.py",
  "        elif isinstance(apdu, (ErrorPDU, RejectPDU, AbortPDU)):\n            queue.abort_io(queue.active_iocb, apdu)",
  "        elif isinstance(apdu, (RejectPDU, AbortPDU)):\n            queue.abort_io(queue.active_iocb, apdu)", "C04.R6", "ErrorPDU no longer finishes the request")

# --- benign
B("C04", "guard-rewrite", A, "        if self.retryCount < self.numberOfApduRetries:", "        if not (self.retryCount >= self.numberOfApduRetries):", "same guard, other spelling")
B("C04", "guard-operands-swapped", A, "if (self.state == COMPLETED) or (self.state == ABORTED):", "if (ABORTED == self.state) or (COMPLETED == self.state):")
B("C04", "terminal-in-tuple", A, "if (self.state == COMPLETED) or (self.state == ABORTED):", "if self.state in (COMPLETED, ABORTED):")
B("C04", "extract-helper", A,
  "            abort = self.abort(AbortReason.noResponse)\n            self.response(abort)\n\n    def await_confirmation(",
  "            self._give_up()\n\n    def _give_up(self):\n        abort = self.abort(AbortReason.noResponse)\n        self.response(abort)\n\n    def await_confirmation(",
  "abort+response extracted into a helper")
B("C04", "inverted-if", A,
  "        if self.segmentCount == 1:\n            # unsegmented\n            self.sentAllSegments = True\n            self.retryCount = 0\n            self.set_state(AWAIT_CONFIRMATION, self.apduTimeout)\n        else:\n            # segmented\n            self.sentAllSegments = False\n            self.retryCount = 0\n            self.segmentRetryCount = 0\n            self.initialSequenceNumber = 0\n            self.actualWindowSize = None    # segment ack will set value\n            self.set_state(SEGMENTED_REQUEST, self.segmentTimeout)",
  "        if self.segmentCount != 1:\n            self.sentAllSegments = False\n            self.retryCount = 0\n            self.segmentRetryCount = 0\n            self.initialSequenceNumber = 0\n            self.actualWindowSize = None\n            self.set_state(SEGMENTED_REQUEST, self.segmentTimeout)\n        else:\n            self.sentAllSegments = True\n            self.retryCount = 0\n            self.set_state(AWAIT_CONFIRMATION, self.apduTimeout)",
  "if/else inverted")
B("C04", "debug-lines", A, "        # stop any current timer\n        self.stop_timer()\n", "        if _debug: SSM._debug('stopping')\n        self.stop_timer()\n")
B("C04", "elif-to-nested", "iocb.py",
  "        if iocb.ioState == COMPLETED:\n            pass\n\n        # if it already aborted, leave it alone\n        elif iocb.ioState == ABORTED:\n            pass\n\n        else:\n            # change the state\n            iocb.ioState = ABORTED\n            iocb.ioError = err\n\n            # notify the client\n            iocb.trigger()",
  "        if iocb.ioState in (COMPLETED, ABORTED):\n            return\n        iocb.ioError = err\n        iocb.ioState = ABORTED\n        iocb.trigger()",
  "early return instead of elif chain")
