"""E0 - resolved program model of <root> (= /repo/py34/bacpypes).

Parses every module, strips debug statements, records parents, builds the
symbol tables (imports followed to the defining module), the class table with
C3 MRO (bases that are factory calls become synthetic classes), method lookup
and a constant evaluator.  Nothing from the analysed tree is imported.
"""
import ast
import os
import hashlib

DEFAULT_ROOT = os.environ.get("BACVERIF_ROOT", "/repo/py34/bacpypes")

LOGGER_ATTRS = {"_debug", "_info", "_warning", "_error", "_exception", "_critical"}


class AnalysisError(Exception):
    """The checker could not analyse the tree (exit 2), not a violation."""


class AnchorMissing(AnalysisError):
    pass


class ShapeError(AnalysisError):
    pass


class NotConst(Exception):
    pass


def is_debug_test(test):
    return isinstance(test, ast.Name) and test.id == "_debug"


def is_logger_call(node):
    """X._debug(...), _log.debug(...) style statement."""
    if not isinstance(node, ast.Expr) or not isinstance(node.value, ast.Call):
        return False
    f = node.value.func
    if isinstance(f, ast.Attribute):
        if f.attr in LOGGER_ATTRS:
            return True
        if isinstance(f.value, ast.Name) and f.value.id in ("_log", "_logger") :
            return True
    return False


class _StripDebug(ast.NodeTransformer):
    """Remove `if _debug: ...` and logger calls (effect free for every rule)."""

    def _block(self, stmts):
        out = []
        for st in stmts:
            r = self.visit(st)
            if r is None:
                continue
            if isinstance(r, list):
                out.extend(r)
            else:
                out.append(r)
        return out

    def generic_visit(self, node):
        for field in ("body", "orelse", "finalbody"):
            if hasattr(node, field) and isinstance(getattr(node, field), list):
                stmts = getattr(node, field)
                if stmts and isinstance(stmts[0], ast.AST) and isinstance(stmts[0], ast.stmt):
                    new = self._block(stmts)
                    if not new and field == "body":
                        p = ast.Pass()
                        ast.copy_location(p, stmts[0])
                        new = [p]
                    setattr(node, field, new)
        if isinstance(node, ast.Try):
            for h in node.handlers:
                self.visit(h)
        return node

    def visit_If(self, node):
        if is_debug_test(node.test):
            if node.orelse:
                return self._block(node.orelse)
            return None
        return self.generic_visit(node)

    def visit_Expr(self, node):
        if is_logger_call(node):
            return None
        # docstrings are kept (harmless)
        return node


def set_parents(tree):
    for node in ast.walk(tree):
        for child in ast.iter_child_nodes(node):
            child._parent = node
    tree._parent = None


def norm(node):
    """Normalised text of a node (keys for constructs; never compared with a
    frozen source fragment)."""
    try:
        return node._norm
    except AttributeError:
        pass
    try:
        t = ast.unparse(node)
    except Exception:  # pragma: no cover
        t = ast.dump(node)
    try:
        node._norm = t
    except Exception:  # pragma: no cover
        pass
    return t


class ClassInfo:
    def __init__(self, name, module, node, bindings=None, synthetic_from=None):
        self.name = name
        self.module = module            # Module
        self.node = node                # ast.ClassDef
        self.bindings = bindings or {}  # factory parameter -> (module, expr)
        self.synthetic_from = synthetic_from
        self.methods = {}
        self.attrs = {}                 # name -> value node (last class-level assignment)
        self.attr_nodes = {}            # name -> Assign stmt
        for st in node.body:
            if isinstance(st, (ast.FunctionDef, ast.AsyncFunctionDef)):
                self.methods[st.name] = st
                st._cls = self
            elif isinstance(st, ast.Assign):
                for t in st.targets:
                    if isinstance(t, ast.Name):
                        self.attrs[t.id] = st.value
                        self.attr_nodes[t.id] = st
            elif isinstance(st, ast.AnnAssign) and isinstance(st.target, ast.Name) and st.value is not None:
                self.attrs[st.target.id] = st.value
                self.attr_nodes[st.target.id] = st

    @property
    def qual(self):
        return "%s.%s" % (self.module.name, self.name)

    def where(self, node=None):
        n = node if node is not None else self.node
        return "%s:%d" % (self.module.relpath, getattr(n, "lineno", 0))

    def __repr__(self):
        return "<class %s>" % self.qual


class Module:
    def __init__(self, name, path, relpath, src):
        self.name = name
        self.path = path
        self.relpath = relpath
        self.src = src
        self._raw_tree = None
        self.tree = _StripDebug().visit(ast.parse(src, filename=path))
        # alpha-renaming invariance: locals renamed relative to the reviewed reference get their reference names back
        from . import alpha, normalize
        self.normalized = normalize.normalize(self.tree, name, alpha.load_reference())
        fq_cache = {}

        def fq(tree_):
            # the function list changes only when a helper was inlined away: computed once per stage of the tree
            k = (id(tree_), sum(len(getattr(x, "body", [])) for x in tree_.body))
            if k not in fq_cache:
                fq_cache[k] = alpha.functions_with_qualnames(tree_)
            return fq_cache[k]
        from . import dispatch
        self.normalized["tables"] = dispatch.expand_new_tables(self.tree, name, alpha.load_reference(), fq, lambda s_: normalize._StructRewrite({}).visit(s_))
        self.normalized["respelled"] = normalize.respell_new_constructs(self.tree, name, alpha.load_reference(), fq)
        self.normalized["comprehensions"] = normalize.comprehensions_to_loops(self.tree, name, alpha.load_reference(), fq)
        self.restored_locals = []
        alpha.restore_local_names(self.tree, name, self.restored_locals, fq)
        self.normalized["explaining_locals"] = normalize.inline_new_locals(self.tree, name, alpha.load_reference(), fq)
        self.normalized["ifexps"] = normalize.hoist_new_ifexps(self.tree, name, alpha.load_reference(), fq)
        set_parents(self.tree)
        self.classes = {}
        self.functions = {}
        self.consts = {}     # name -> list of value nodes (module level assignments)
        self.imports = {}    # local name -> (module name or None for external, original name or None)
        self.digest = hashlib.sha256(src.encode("utf-8", "replace")).hexdigest()[:16]
        self._index()

    @property
    def raw_tree(self):
        if self._raw_tree is None:
            self._raw_tree = ast.parse(self.src, filename=self.path)
            set_parents(self._raw_tree)
        return self._raw_tree

    def _index(self):
        pkg_parts = self.name.split(".")[:-1]
        for st in self.tree.body:
            self._index_stmt(st, pkg_parts)

    def _index_stmt(self, st, pkg_parts):
        if isinstance(st, ast.ClassDef):
            self.classes[st.name] = ClassInfo(st.name, self, st)
        elif isinstance(st, (ast.FunctionDef, ast.AsyncFunctionDef)):
            self.functions[st.name] = st
            st._cls = None
        elif isinstance(st, ast.Assign):
            for t in st.targets:
                if isinstance(t, ast.Name):
                    self.consts.setdefault(t.id, []).append(st.value)
                elif isinstance(t, ast.Tuple) and isinstance(st.value, ast.Tuple) and len(t.elts) == len(st.value.elts):
                    for tt, vv in zip(t.elts, st.value.elts):
                        if isinstance(tt, ast.Name):
                            self.consts.setdefault(tt.id, []).append(vv)
        elif isinstance(st, ast.ImportFrom):
            if st.level:
                base = pkg_parts[: len(pkg_parts) - (st.level - 1)] if st.level > 1 else list(pkg_parts)
                target = ".".join(base + (st.module.split(".") if st.module else []))
                for a in st.names:
                    self.imports[a.asname or a.name] = (target, a.name)
            else:
                for a in st.names:
                    self.imports[a.asname or a.name] = (None, "%s.%s" % (st.module, a.name))
        elif isinstance(st, ast.Import):
            for a in st.names:
                self.imports[(a.asname or a.name).split(".")[0]] = (None, a.name)
        elif isinstance(st, (ast.If, ast.Try)):
            # module-level conditional definitions (rare): index both arms
            for sub in getattr(st, "body", []) + getattr(st, "orelse", []):
                self._index_stmt(sub, pkg_parts)

    def where(self, node):
        return "%s:%d" % (self.relpath, getattr(node, "lineno", 0))


class Program:
    def __init__(self, root=None):
        self.root = os.path.abspath(root or DEFAULT_ROOT)
        if not os.path.isdir(self.root):
            raise AnchorMissing("source root %s does not exist" % self.root)
        self.modules = {}
        self._mro_cache = {}
        self._synthetic = {}
        for dirpath, dirnames, filenames in os.walk(self.root):
            dirnames.sort()
            for fn in sorted(filenames):
                if not fn.endswith(".py"):
                    continue
                path = os.path.join(dirpath, fn)
                rel = os.path.relpath(path, self.root)
                name = rel[:-3].replace(os.sep, ".")
                if name.endswith("__init__"):
                    name = name[: -len("__init__")].rstrip(".") or "__init__"
                with open(path, encoding="utf-8", errors="replace") as f:
                    src = f.read()
                try:
                    self.modules[name] = Module(name, path, os.path.join("py34/bacpypes", rel), src)
                except SyntaxError as e:
                    raise AnalysisError("cannot parse %s: %s" % (path, e))
        self.digest = hashlib.sha256(
            "".join(m.digest for _, m in sorted(self.modules.items())).encode()
        ).hexdigest()[:16]

    # ---------------------------------------------------------------- lookup
    def module(self, name):
        if name not in self.modules:
            raise AnchorMissing("module %s not found under %s" % (name, self.root))
        return self.modules[name]

    def cls(self, modname, clsname):
        m = self.module(modname)
        if clsname not in m.classes:
            raise AnchorMissing("class %s.%s not found" % (modname, clsname))
        return m.classes[clsname]

    def has_cls(self, modname, clsname):
        return modname in self.modules and clsname in self.modules[modname].classes

    def func(self, modname, qualname, inherited=False):
        """FunctionDef of `func` or `Class.method` (own method unless inherited)."""
        m = self.module(modname)
        if "." in qualname:
            cn, fn = qualname.split(".", 1)
            c = self.cls(modname, cn)
            if fn in c.methods:
                return c.methods[fn]
            if inherited:
                r = self.find_method(c, fn)
                if r:
                    return r[1]
            raise AnchorMissing("method %s.%s not found" % (modname, qualname))
        if qualname not in m.functions:
            raise AnchorMissing("function %s.%s not found" % (modname, qualname))
        return m.functions[qualname]

    def has_func(self, modname, qualname):
        try:
            self.func(modname, qualname)
            return True
        except AnchorMissing:
            return False

    def all_classes(self):
        for mn, m in sorted(self.modules.items()):
            for cn, c in m.classes.items():
                yield c

    def all_functions(self):
        """(module, class or None, FunctionDef) for every top-level function and method."""
        for mn, m in sorted(self.modules.items()):
            for fn in m.functions.values():
                yield m, None, fn
            for c in m.classes.values():
                for fn in c.methods.values():
                    yield m, c, fn

    # ------------------------------------------------------------ resolution
    def resolve_name(self, module, name, _depth=0):
        """-> ('class', ClassInfo) | ('func', Module, node) | ('const', Module, [nodes])
              | ('module', Module) | ('external', dotted) | None"""
        if _depth > 10:
            return None
        if name in module.classes:
            return ("class", module.classes[name])
        if name in module.functions:
            return ("func", module, module.functions[name])
        if name in module.consts:
            return ("const", module, module.consts[name])
        if name in module.imports:
            target, orig = module.imports[name]
            if target is None:
                return ("external", orig)
            if target in self.modules:
                tm = self.modules[target]
                r = self.resolve_name(tm, orig, _depth + 1)
                if r:
                    return r
                sub = (target + "." + orig) if target else orig
                if sub in self.modules:
                    return ("module", self.modules[sub])
                return None
            sub = (target + "." + orig) if target else orig
            if sub in self.modules:
                return ("module", self.modules[sub])
            if target == "" and orig in self.modules:
                return ("module", self.modules[orig])
        return None

    def resolve_class_expr(self, module, expr, bindings=None):
        """ClassInfo for an expression naming a class (Name, mod.Name or a
        factory call such as ArrayOf(X) / Commandable(Real)); None if unknown."""
        bindings = bindings or {}
        if isinstance(expr, ast.Name):
            if expr.id in bindings:
                bm, be = bindings[expr.id]
                return self.resolve_class_expr(bm, be)
            r = self.resolve_name(module, expr.id)
            if r and r[0] == "class":
                return r[1]
            if r and r[0] == "const" and len(r[2]) == 1:
                # alias:  X = Y   or  X = ArrayOf(Y)
                return self.resolve_class_expr(r[1], r[2][0])
            return None
        if isinstance(expr, ast.Attribute) and isinstance(expr.value, ast.Name):
            r = self.resolve_name(module, expr.value.id)
            if r and r[0] == "module":
                rr = self.resolve_name(r[1], expr.attr)
                if rr and rr[0] == "class":
                    return rr[1]
            return None
        if isinstance(expr, ast.Call) and isinstance(expr.func, ast.Name):
            r = self.resolve_name(module, expr.func.id)
            if r and r[0] == "func":
                return self._synthetic_class(r[1], r[2], module, expr, bindings)
        return None

    def _synthetic_class(self, fmod, fdef, callmod, call, bindings):
        inner = [st for st in fdef.body if isinstance(st, ast.ClassDef)]
        if len(inner) != 1:
            return None
        key = (fmod.name, fdef.name, callmod.name, norm(call))
        if key in self._synthetic:
            return self._synthetic[key]
        params = [a.arg for a in fdef.args.args]
        b = {}
        for p, a in zip(params, call.args):
            # substitute through outer bindings
            if isinstance(a, ast.Name) and a.id in bindings:
                b[p] = bindings[a.id]
            else:
                b[p] = (callmod, a)
        for kw in call.keywords:
            if kw.arg in params:
                b[kw.arg] = (callmod, kw.value)
        name = "%s(%s)" % (fdef.name, ", ".join(norm(a) for a in call.args))
        ci = ClassInfo(name, fmod, inner[0], bindings=b, synthetic_from=fdef.name)
        ci.factory_args = [norm(a) for a in call.args]
        ci.call_module = callmod
        ci.call = call
        self._synthetic[key] = ci
        return ci

    def bases(self, c):
        out = []
        for b in c.node.bases:
            bc = self.resolve_class_expr(c.module, b, c.bindings)
            if bc is not None:
                out.append(bc)
        return out

    def mro(self, c):
        key = id(c)
        if key in self._mro_cache:
            return self._mro_cache[key]
        self._mro_cache[key] = [c]  # cycle guard
        seqs = [self.mro(b)[:] for b in self.bases(c)] + [self.bases(c)[:]]
        res = [c]
        while True:
            seqs = [s for s in seqs if s]
            if not seqs:
                break
            for s in seqs:
                cand = s[0]
                if not any(cand in t[1:] for t in seqs):
                    break
            else:
                # inconsistent hierarchy: fall back to left-to-right depth first
                cand = seqs[0][0]
            res.append(cand)
            for s in seqs:
                if s and s[0] is cand:
                    del s[0]
                elif cand in s:
                    s.remove(cand)
        self._mro_cache[key] = res
        return res

    def mro_names(self, c):
        return [x.name for x in self.mro(c)]

    def is_subclass(self, c, modname, clsname):
        for x in self.mro(c):
            if x.name == clsname and x.module.name == modname:
                return True
        return False

    def find_method(self, c, name):
        for x in self.mro(c):
            if name in x.methods:
                return x, x.methods[name]
        return None

    def class_attr(self, c, name):
        for x in self.mro(c):
            if name in x.attrs:
                return x, x.attrs[name]
        return None

    def subclasses(self, base):
        out = []
        for c in self.all_classes():
            if c is not base and base in self.mro(c):
                out.append(c)
        return out

    # --------------------------------------------------------------- consts
    def const(self, module, node, cls=None, env=None, _depth=0):
        """Evaluate a constant expression from the AST.  Raises NotConst."""
        if _depth > 30:
            raise NotConst("depth")
        ev = lambda n: self.const(module, n, cls, env, _depth + 1)
        if isinstance(node, ast.Constant):
            return node.value
        if isinstance(node, ast.Name):
            if env and node.id in env:
                return env[node.id]
            if node.id in ("None", "True", "False"):
                return {"None": None, "True": True, "False": False}[node.id]
            if cls is not None:
                r = self.class_attr(cls, node.id)
                if r and cls.node is not None and _in_class_body(node, r[0]):
                    return self.const(r[0].module, r[1], r[0], env, _depth + 1)
            r = self.resolve_name(module, node.id)
            if r and r[0] == "const":
                if len(r[2]) != 1:
                    raise NotConst("%s assigned %d times" % (node.id, len(r[2])))
                return self.const(r[1], r[2][0], None, env, _depth + 1)
            raise NotConst("name %s" % node.id)
        if isinstance(node, ast.Attribute):
            # Class.attr  (incl. enumeration names injected by expand_enumerations)
            if isinstance(node.value, ast.Name) and node.value.id == "self" and cls is not None:
                c = cls
            else:
                c = self.resolve_class_expr(module, node.value)
            if c is not None:
                r = self.class_attr(c, node.attr)
                if r:
                    return self.const(r[0].module, r[1], r[0], env, _depth + 1)
                en = self.class_attr(c, "enumerations")
                if en:
                    d = self.const(en[0].module, en[1], en[0], env, _depth + 1)
                    if isinstance(d, dict) and node.attr in d:
                        return d[node.attr]
                raise NotConst("attr %s.%s" % (c.name, node.attr))
            if isinstance(node.value, ast.Name):
                r = self.resolve_name(module, node.value.id)
                if r and r[0] == "module":
                    rr = self.resolve_name(r[1], node.attr)
                    if rr and rr[0] == "const" and len(rr[2]) == 1:
                        return self.const(rr[1], rr[2][0], None, env, _depth + 1)
            raise NotConst("attribute %s" % norm(node))
        if isinstance(node, ast.Tuple):
            return tuple(ev(e) for e in node.elts)
        if isinstance(node, ast.List):
            return [ev(e) for e in node.elts]
        if isinstance(node, ast.Set):
            return set(ev(e) for e in node.elts)
        if isinstance(node, ast.Dict):
            d = {}
            for k, v in zip(node.keys, node.values):
                if k is None:
                    d.update(ev(v))
                else:
                    d[ev(k)] = ev(v)
            return d
        if isinstance(node, ast.UnaryOp):
            v = ev(node.operand)
            if isinstance(node.op, ast.USub):
                return -v
            if isinstance(node.op, ast.UAdd):
                return +v
            if isinstance(node.op, ast.Invert):
                return ~v
            if isinstance(node.op, ast.Not):
                return not v
        if isinstance(node, ast.BinOp):
            a, b = ev(node.left), ev(node.right)
            try:
                return _BINOPS[type(node.op)](a, b)
            except KeyError:
                raise NotConst("binop")
            except Exception as e:
                raise NotConst(str(e))
        if isinstance(node, ast.Call) and isinstance(node.func, ast.Name):
            fn = node.func.id
            if fn in ("tuple", "list", "set", "frozenset", "len", "int", "dict") and not node.keywords:
                args = [ev(a) for a in node.args]
                try:
                    return {"tuple": tuple, "list": list, "set": set, "frozenset": frozenset,
                            "len": len, "int": int, "dict": dict}[fn](*args)
                except Exception as e:
                    raise NotConst(str(e))
        if isinstance(node, ast.Subscript):
            v = ev(node.value)
            try:
                return v[ev(node.slice)]
            except NotConst:
                raise
            except Exception as e:
                raise NotConst(str(e))
        raise NotConst(type(node).__name__)

    def try_const(self, module, node, cls=None, default=None, env=None):
        try:
            return self.const(module, node, cls, env)
        except NotConst:
            return default


def _in_class_body(node, cls):
    """True if `node` is lexically in the class body (not inside a method)."""
    p = getattr(node, "_parent", None)
    while p is not None:
        if isinstance(p, (ast.FunctionDef, ast.Lambda)):
            return False
        if isinstance(p, ast.ClassDef):
            return True
        p = getattr(p, "_parent", None)
    return False


_BINOPS = {
    ast.Add: lambda a, b: a + b,
    ast.Sub: lambda a, b: a - b,
    ast.Mult: lambda a, b: a * b,
    ast.FloorDiv: lambda a, b: a // b,
    ast.Div: lambda a, b: a / b,
    ast.Mod: lambda a, b: a % b,
    ast.Pow: lambda a, b: a ** b,
    ast.LShift: lambda a, b: a << b,
    ast.RShift: lambda a, b: a >> b,
    ast.BitOr: lambda a, b: a | b,
    ast.BitAnd: lambda a, b: a & b,
    ast.BitXor: lambda a, b: a ^ b,
}


# ------------------------------------------------------------------ helpers
def enclosing_function(node):
    p = getattr(node, "_parent", None)
    while p is not None and not isinstance(p, (ast.FunctionDef, ast.AsyncFunctionDef)):
        p = getattr(p, "_parent", None)
    return p


def enclosing_class(node):
    p = getattr(node, "_parent", None)
    while p is not None and not isinstance(p, ast.ClassDef):
        p = getattr(p, "_parent", None)
    return p


def qualname(fn):
    c = getattr(fn, "_cls", None)
    if c is None:
        ec = enclosing_class(fn)
        if ec is not None:
            return "%s.%s" % (ec.name, fn.name)
        return fn.name
    return "%s.%s" % (c.name, fn.name)


def calls_in(node):
    for n in ast.walk(node):
        if isinstance(n, ast.Call):
            yield n


def call_name(call):
    """'self.abort', 'tr.indication', 'SegmentAckPDU', 'struct.pack' ... (dotted text of func)."""
    return norm(call.func)


def is_self_attr(node, attr=None):
    return (isinstance(node, ast.Attribute) and isinstance(node.value, ast.Name)
            and node.value.id == "self" and (attr is None or node.attr == attr))


def stores_in(node):
    """(target expr, stmt) for every store inside node (Assign, AugAssign, For target, del)."""
    for n in ast.walk(node):
        if isinstance(n, ast.Assign):
            for t in n.targets:
                for tt in _flatten_targets(t):
                    yield tt, n
        elif isinstance(n, ast.AugAssign):
            yield n.target, n
        elif isinstance(n, ast.AnnAssign) and n.value is not None:
            yield n.target, n
        elif isinstance(n, ast.For):
            for tt in _flatten_targets(n.target):
                yield tt, n
        elif isinstance(n, ast.Delete):
            for t in n.targets:
                yield t, n


def _flatten_targets(t):
    if isinstance(t, (ast.Tuple, ast.List)):
        for e in t.elts:
            yield from _flatten_targets(e)
    elif isinstance(t, ast.Starred):
        yield from _flatten_targets(t.value)
    else:
        yield t
