"""CLI:  python -m bacverif check <id> [--tier quick|thorough] [--root DIR]
         python -m bacverif replay <path>
         python -m bacverif selftest <id>|all
         python -m bacverif --self-check

Exit codes: 0 property held on everything analysed; 1 violation (prints
`VIOLATION property=<id> replay=<path>`); 2 analysis error (`ANALYSIS-ERROR`).
"""
import argparse
import json
import os
import sys
import traceback

from . import report
from .model import DEFAULT_ROOT

VERIF_DIR = report.VERIF_DIR
ALL_PROPS = ["C%02d" % i for i in range(1, 21)]


def cmd_checkall(args):
    """one line per property: <id> rc=<0|1|2> [first findings];  exit 1 if any property is not 0"""
    from .model import Program
    from . import rules  # noqa: F401  (registers the rules)
    root = args.root or DEFAULT_ROOT
    prog = Program(root)
    pids = args.only.split(",") if args.only else sorted(report.RULES)
    worst = 0
    for pid in pids:
        res = report.run_property(pid, root=root, prog=prog)
        rc = 1 if res["violations"] else (2 if res["errors"] else 0)
        worst = max(worst, 1 if rc else 0)
        det = "; ".join(["%s %s" % (d["rule"], d["construct"]) for d in res["violations"][:3]] + [e[:120] for e in res["errors"][:2]])
        print("%s rc=%d %s" % (pid, rc, det))
    return worst


def cmd_check(args):
    pid = args.property
    tier = args.tier or os.environ.get("VERIF_TIER") or "quick"
    if tier not in ("quick", "thorough"):
        tier = "quick"
    try:
        seed = int(os.environ.get("VERIF_SEED", "0"))
    except ValueError:
        seed = 0
    root = args.root or DEFAULT_ROOT
    res = report.run_property(pid, root=root, tier=tier, seed=seed)
    res["root"] = root
    extra_cov = {}
    st_fail = False
    if tier == "thorough" and not args.no_selftest and res["status"] != "error":
        from . import selftest
        st = selftest.run(pid, root=root, jobs=args.jobs)
        extra_cov["selftest"] = st["summary"]
        res["wall_s"] += st["wall_s"]
        if not st["ok"]:
            st_fail = True
            res["errors"].extend(st["problems"])
    ev_dir = args.evidence_dir or os.path.join(VERIF_DIR, "evidence")
    ev_path = os.path.join(ev_dir, "%s.json" % pid)
    # diagnostics
    for e in res["errors"]:
        print("ANALYSIS-ERROR property=%s %s" % (pid, e))
    for d in res["known"]:
        print("KNOWN-FINDING: property=%s %s [%s %s @ %s]" % (pid, d.get("what_fails") or d.get("msg"), d["rule"], d["construct"], d["where"]))
    for d in res["advisory"]:
        if args.verbose:
            print("ADVISORY property=%s %s" % (pid, report.format_instance(d)))
    replay_path = None
    if res["violations"]:
        rdir = os.path.join(ev_dir, "replay")
        os.makedirs(rdir, exist_ok=True)
        replay_path = os.path.join(rdir, "%s.json" % pid)
        with open(replay_path, "w") as f:
            json.dump({"property": pid, "root": root, "tier": tier, "digest": res.get("digest"),
                       "violations": res["violations"]}, f, indent=1, default=str)
        for d in res["violations"]:
            print("FINDING property=%s %s" % (pid, report.format_instance(d)))
    if not args.no_evidence:
        report.write_evidence(pid, res, tier, seed, ev_path, extra_cov=extra_cov)
    nrules = len(res["per_rule"])
    print("%s: %d rules, %d instances, %d holding, %d known findings, %d violations, %d errors (%.2fs)" % (
        pid, nrules, len(res["instances"]), sum(1 for i in res["instances"] if i["ok"]),
        len(res["known"]), len(res["violations"]), len(res["errors"]), res["wall_s"]))
    if args.verbose:
        for rid, pr in sorted(res["per_rule"].items()):
            print("   %s: %d/%d (floor %d)%s  %s" % (rid, pr["holding"], pr["instances"], pr["floor"], " advisory" if pr["advisory"] else "", pr["clause"]))
    if res["violations"]:
        print("VIOLATION property=%s replay=%s" % (pid, replay_path))
        return 1
    if res["status"] == "error" or st_fail:
        return 2
    return 0


def cmd_replay(args):
    with open(args.path) as f:
        rp = json.load(f)
    pid = rp["property"]
    root = args.root or rp.get("root") or DEFAULT_ROOT
    want = {(v["rule"], v["construct"]) for v in rp["violations"]}
    res = report.run_property(pid, root=root, only_rules={r for r, _ in want})
    still = [d for d in res["violations"] + res["known"] if (d["rule"], d["construct"]) in want]
    for d in still:
        print("REPRODUCED %s" % report.format_instance(d))
        if d.get("facts") is not None:
            print("    facts: %s" % json.dumps(d["facts"], default=str)[:1000])
    gone = want - {(d["rule"], d["construct"]) for d in still}
    for r, c in sorted(gone):
        print("NOT-REPRODUCED %s %s (holds on %s now)" % (r, c, root))
    for e in res["errors"]:
        print("ANALYSIS-ERROR %s" % e)
    if still:
        print("VIOLATION property=%s replay=%s" % (pid, args.path))
        return 1
    return 2 if res["errors"] else 0


def cmd_self_check(args):
    """parse the tree and run every property once without writing evidence"""
    from .model import Program
    prog = Program(args.root or DEFAULT_ROOT)
    print("parsed %d modules under %s (digest %s)" % (len(prog.modules), prog.root, prog.digest))
    from . import rules  # noqa
    n = sum(len(v) for v in report.RULES.values())
    print("%d rules registered for %d properties" % (n, len(report.RULES)))
    return 0


def main(argv=None):
    ap = argparse.ArgumentParser(prog="bacverif")
    ap.add_argument("--self-check", action="store_true")
    sub = ap.add_subparsers(dest="cmd")
    c = sub.add_parser("check")
    c.add_argument("property")
    c.add_argument("--tier", default=None)
    c.add_argument("--root", default=None)
    c.add_argument("--evidence-dir", default=None)
    c.add_argument("--no-evidence", action="store_true")
    c.add_argument("--no-selftest", action="store_true")
    c.add_argument("--jobs", type=int, default=16)
    c.add_argument("-v", "--verbose", action="store_true")
    a = sub.add_parser("checkall", help="all twenty properties on one tree, program loaded once (used by the corpus runners)")
    a.add_argument("--root", default=None)
    a.add_argument("--only", default=None, help="comma separated property ids")
    r = sub.add_parser("replay")
    r.add_argument("path")
    r.add_argument("--root", default=None)
    s = sub.add_parser("selftest")
    s.add_argument("property")
    s.add_argument("--root", default=None)
    s.add_argument("--jobs", type=int, default=16)
    s.add_argument("-v", "--verbose", action="store_true")
    ap.add_argument("--root", default=None, dest="root_top")
    args = ap.parse_args(argv)
    try:
        if args.self_check:
            args.root = args.root_top
            return cmd_self_check(args)
        if args.cmd == "check":
            return cmd_check(args)
        if args.cmd == "checkall":
            return cmd_checkall(args)
        if args.cmd == "replay":
            return cmd_replay(args)
        if args.cmd == "selftest":
            from . import selftest
            return selftest.main(args)
        ap.print_help()
        return 2
    except SystemExit:
        raise
    except BaseException as e:  # never let a traceback look like a violation
        tb = traceback.format_exc()
        print("ANALYSIS-ERROR internal %s: %s" % (type(e).__name__, e))
        sys.stderr.write(tb)
        return 2


if __name__ == "__main__":
    sys.exit(main())
