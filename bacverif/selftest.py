"""E6 - self-test of the checker: mutants must be reported by the named rule,
benign refactorings must stay silent.

Variants are textual edits (old -> new, `old` must occur exactly once in the
file) applied to a scratch copy of the analysed package in a fresh temporary
directory outside /repo and /verif, removed afterwards.  The checker is then
run with --root on the copy.  A variant whose `old` text no longer occurs
(the tree has been edited) is *stale* and skipped, not failed.
"""
import concurrent.futures
import json
import os
import shutil
import sys
import tempfile
import time

from . import report
from .model import DEFAULT_ROOT


def load_variants(pid=None):
    from . import variants
    out = []
    for v in variants.ALL:
        if pid in (None, "all") or v["prop"] == pid:
            out.append(v)
    return out


def _apply(root, v):
    """-> None if applied, 'stale' / reason otherwise"""
    edits = v.get("edits") or [dict(file=v["file"], old=v["old"], new=v["new"], nth=v.get("nth"), of=v.get("of"))]
    edits = [dict(e, of=e.get("of") or None) if e.get("of") else {k: x for k, x in e.items() if k != "of"} for e in edits]
    for e in edits:
        path = os.path.join(root, e["file"])
        if not os.path.exists(path):
            return "stale: %s missing" % e["file"]
        with open(path, encoding="utf-8") as f:
            s = f.read()
        n = s.count(e["old"])
        nth = e.get("nth")
        if nth is None:
            if n != 1:
                return "stale: old text occurs %d times in %s" % (n, e["file"])
            s = s.replace(e["old"], e["new"])
        else:
            if n < nth or n != e.get("of", n):
                return "stale: old text occurs %d times in %s" % (n, e["file"])
            pos = -1
            for _ in range(nth):
                pos = s.index(e["old"], pos + 1)
            s = s[:pos] + e["new"] + s[pos + len(e["old"]):]
        try:
            compile(s, path, "exec")
        except SyntaxError as ex:
            return "broken variant: does not compile: %s" % ex
        with open(path, "w", encoding="utf-8") as f:
            f.write(s)
    return None


def _apply_patch(root, v):
    """a stored sub-agent change (seeded/<id>/patch.diff or benign/<id>/patch.diff, paths py34/bacpypes/..): applied with
    patch(1) to the copy; a patch that no longer applies is stale, not a problem (the tree has moved on)"""
    import subprocess
    top = os.path.dirname(os.path.dirname(root))        # <tmp>/py34/bacpypes -> <tmp>
    r = subprocess.run(["patch", "-p1", "-s", "-F3", "--no-backup-if-mismatch", "-d", top, "-i", v["patch"]], capture_output=True, text=True)
    if r.returncode:
        return "stale: patch does not apply"
    for dp, _, fs in os.walk(root):
        for f in fs:
            if f.endswith(".py"):
                try:
                    with open(os.path.join(dp, f), encoding="utf-8") as fh:
                        compile(fh.read(), f, "exec")
                except SyntaxError as ex:
                    return "stale: %s" % ex
    return None


def patch_variants(pid):
    """the seeded changes recorded for this property (must be detected) and every stored behaviour-preserving
    refactoring (must be silent for this property)"""
    base = os.path.dirname(os.path.dirname(os.path.abspath(__file__)))
    out = []
    sd = os.path.join(base, "seeded")
    if os.path.isdir(sd):
        for d in sorted(os.listdir(sd)):
            mp = os.path.join(sd, d, "meta.json")
            if not os.path.exists(mp) or not d.startswith(pid + "-"):
                continue
            try:
                meta = json.load(open(mp))
            except ValueError:
                continue
            if meta.get("neutralised_by"):
                continue
            out.append(dict(kind="mutant", prop=pid, id="%s/seed/%s" % (pid, d), patch=os.path.join(sd, d, "patch.diff"), expect=None, what=meta.get("title", ""), allow_error=False))
    cd = os.path.join(base, "selftest_patches")
    if os.path.isdir(cd):
        # a stored refactoring plus one breaking edit inside the refactored code: the normalisation must not hide the break
        for d in sorted(os.listdir(cd)):
            mp = os.path.join(cd, d, "meta.json")
            if os.path.exists(mp) and json.load(open(mp)).get("property") == pid:
                out.append(dict(kind="mutant", prop=pid, id="%s/refactored-and-broken/%s" % (pid, d), patch=os.path.join(cd, d, "patch.diff"), expect=None,
                                what=json.load(open(mp)).get("what", ""), allow_error=False))
    bd = os.path.join(base, "benign")
    if os.path.isdir(bd):
        # the refactorings made for this property, and every other stored refactoring that touches a file one of this
        # property's own changes (seeds, refactorings, combos) touches; tools/run_benign.py runs all of them against all checks
        own_files = set()
        for v in out:
            own_files |= _files_of(v["patch"])
        for d in sorted(os.listdir(bd)):
            pp = os.path.join(bd, d, "patch.diff")
            if os.path.exists(pp) and d.startswith(pid + "-"):
                own_files |= _files_of(pp)
        for d in sorted(os.listdir(bd)):
            pp = os.path.join(bd, d, "patch.diff")
            if os.path.exists(pp) and (d.startswith(pid + "-") or (_files_of(pp) & own_files)):
                out.append(dict(kind="benign", prop=pid, id="%s/refactoring/%s" % (pid, d), patch=pp, what=""))
    return out


_FILES = {}


def _files_of(patch):
    if patch not in _FILES:
        fs = set()
        try:
            with open(patch, encoding="utf-8", errors="replace") as fh:
                for line in fh:
                    if line.startswith("+++ "):
                        f = line[4:].strip().split("\t")[0]
                        f = f.split("py34/", 1)[1] if "py34/" in f else f
                        fs.add(f)
        except OSError:
            pass
        _FILES[patch] = fs
    return _FILES[patch]


def _run_variant(args):
    src_root, v = args
    tmp = tempfile.mkdtemp(prefix="bacverif-st-")
    try:
        if v.get("patch"):
            root = os.path.join(tmp, "py34", "bacpypes")
        else:
            root = os.path.join(tmp, "bacpypes")
        shutil.copytree(src_root, root, ignore=shutil.ignore_patterns("__pycache__", "*.pyc"))
        why = _apply_patch(root, v) if v.get("patch") else _apply(root, v)
        if why:
            return dict(id=v["id"], status="stale" if why.startswith("stale") else "broken", detail=why)
        res = report.run_property(v["prop"], root=root)
        fired = sorted({d["rule"] for d in res["violations"]})
        constructs = sorted({"%s %s" % (d["rule"], d["construct"]) for d in res["violations"]})[:6]
        if v["kind"] == "mutant":
            exp = v.get("expect")
            exp = [exp] if isinstance(exp, str) else (exp or [])
            if res["status"] == "error" and not res["violations"]:
                if v.get("allow_error"):
                    return dict(id=v["id"], status="killed", detail="analysis error: %s" % res["errors"][:1])
                return dict(id=v["id"], status="error", detail="; ".join(res["errors"])[:300])
            if not res["violations"]:
                return dict(id=v["id"], status="survived", detail="no violation reported")
            if exp and not (set(exp) & set(fired)):
                return dict(id=v["id"], status="wrong-rule", detail="expected %s, fired %s" % (exp, constructs))
            return dict(id=v["id"], status="killed", detail="; ".join(constructs))
        else:
            if res["violations"] or res["status"] == "error":
                return dict(id=v["id"], status="false-alarm", detail="; ".join(constructs + res["errors"])[:400])
            return dict(id=v["id"], status="silent", detail="")
    except Exception as e:  # pragma: no cover
        return dict(id=v["id"], status="error", detail="%s: %s" % (type(e).__name__, e))
    finally:
        shutil.rmtree(tmp, ignore_errors=True)


def run(pid, root=None, jobs=16, verbose=False, patches=True):
    t0 = time.time()
    root = root or DEFAULT_ROOT
    vs = load_variants(pid) + (patch_variants(pid) if patches and pid not in (None, "all") else [])
    results = []
    if vs:
        with concurrent.futures.ProcessPoolExecutor(max_workers=min(jobs, len(vs))) as ex:
            results = list(ex.map(_run_variant, [(root, v) for v in vs]))
    byid = {v["id"]: v for v in vs}
    problems = []
    counts = {}
    for r in results:
        counts[r["status"]] = counts.get(r["status"], 0) + 1
        if r["status"] in ("survived", "wrong-rule", "false-alarm", "error", "broken"):
            problems.append("selftest %s %s: %s" % (r["id"], r["status"], r["detail"]))
        if verbose:
            print("  %-12s %-40s %s" % (r["status"], r["id"], r["detail"][:160]))
    summary = {"variants": len(vs), "mutants": sum(1 for v in vs if v["kind"] == "mutant"),
               "benign": sum(1 for v in vs if v["kind"] == "benign"), "counts": counts,
               "results": [{"id": r["id"], "status": r["status"], "what": byid[r["id"]].get("what", "")} for r in results]}
    return {"ok": not problems, "problems": problems, "summary": summary, "wall_s": time.time() - t0}


def main(args):
    st = run(args.property, root=args.root, jobs=args.jobs, verbose=args.verbose)
    print(json.dumps(st["summary"]["counts"]), "%.1fs" % st["wall_s"])
    for p in st["problems"]:
        print("SELFTEST-PROBLEM", p)
    return 0 if st["ok"] else 2
