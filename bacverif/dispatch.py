"""Table-driven dispatch undone.

A popular clean-up replaces an if/elif chain on `x == K` by a constant table: a dict looked up with the
discriminating value (`T.get(x)`, `T[x]`, `x in T`) or a tuple of rows walked by a loop.  The behaviour is
unchanged, the rules - which read conditions on paths - no longer see the case distinction.  At load time a table
that the reviewed reference does not know (a new local, a new module-level name, a new class attribute; see
`__globals__` in spec/local_names.json) and that nothing can modify is expanded back into the control flow it
abbreviates:

  T1  the rest of the block after the first lookup is split on the key: one copy per entry with the lookup replaced
      by the entry's value, one copy for "absent"; a new local that merely holds the looked-up value is propagated,
      `v is None` tests on it are decided and dead branches dropped.
  T2  `for a, b in T: ...` is unrolled, the row substituted for the targets (a `break` that ends an `if` at the end
      of the body becomes the if/else nesting it stands for); locals that live inside one iteration get one name
      per iteration.

Both are meaning preserving for any code (under the stated side conditions), so applying them can only make the
analysed program easier to read for the rules, never different.  Tables of the reviewed tree are known to the
reference and stay as written, as does everything in a function the pass has no reason to touch.
"""
import ast
import copy

_SCOPES = (ast.FunctionDef, ast.AsyncFunctionDef, ast.ClassDef, ast.Lambda)
_MAX_ROWS = 16
_MAX_REST = 14


def _text(e):
    try:
        return ast.unparse(e)
    except Exception:
        return ast.dump(e)


def _simple(e):
    if isinstance(e, (ast.Constant, ast.Name)):
        return True
    if isinstance(e, ast.Attribute):
        return _simple(e.value)
    return False


def global_names(tree):
    """module-level and class-level assigned names ("X", "C.X"), for the reference"""
    out = set()
    for st in tree.body:
        for t in _assigned(st):
            out.add(t)
        if isinstance(st, ast.ClassDef):
            for s in st.body:
                for t in _assigned(s):
                    out.add("%s.%s" % (st.name, t))
    return sorted(out)


def _assigned(st):
    if isinstance(st, ast.Assign):
        return [t.id for t in st.targets if isinstance(t, ast.Name)]
    if isinstance(st, ast.AnnAssign) and isinstance(st.target, ast.Name):
        return [st.target.id]
    return []


class _Table:
    def __init__(self, kind, rows):
        self.kind = kind          # "dict" | "rows"
        self.rows = rows          # dict: [(key expr, value expr)]; rows: [[expr, ...]] (one or more columns)


def _literal_table(v, qualify=None):
    """a dict / tuple / list literal made of simple expressions only -> _Table"""
    def q(e):
        e = copy.deepcopy(e)
        if qualify is not None:
            e = qualify(e)
        return e
    if isinstance(v, ast.Dict):
        if not v.keys or any(k is None or not _simple(k) or not _simple(x) for k, x in zip(v.keys, v.values)):
            return None
        keys = [_text(k) for k in v.keys]
        if len(set(keys)) != len(keys) or len(keys) > _MAX_ROWS:
            return None
        return _Table("dict", [(q(k), q(x)) for k, x in zip(v.keys, v.values)])
    if isinstance(v, (ast.Tuple, ast.List)) and v.elts and len(v.elts) <= _MAX_ROWS:
        if all(isinstance(e, (ast.Tuple, ast.List)) for e in v.elts):
            n = len(v.elts[0].elts)
            if n and all(len(e.elts) == n and all(_simple(x) for x in e.elts) for e in v.elts):
                return _Table("rows", [[q(x) for x in e.elts] for e in v.elts])
            return None
        if all(_simple(e) for e in v.elts):
            return _Table("rows", [[q(e)] for e in v.elts])
    return None


def _parents(root):
    par = {}
    for n in ast.walk(root):
        for ch in ast.iter_child_nodes(n):
            par[id(ch)] = n
    return par


_READ_METHODS = {"get", "items", "keys", "values"}


def _only_read(root, texts, defining, par):
    """every occurrence of the table (by any of its spellings) in `root` is a read that cannot change or leak it"""
    for n in ast.walk(root):
        if not isinstance(n, (ast.Name, ast.Attribute)) or _text(n) not in texts:
            continue
        if n is defining:
            continue
        if not isinstance(n.ctx, ast.Load):
            return False
        p = par.get(id(n))
        if isinstance(p, ast.Attribute) and p.value is n:
            if p.attr in _READ_METHODS and isinstance(par.get(id(p)), ast.Call) and par[id(p)].func is p:
                continue
            if _text(p) in texts:          # C._t inside the spelling C._t
                continue
            return False
        if isinstance(p, ast.Subscript) and p.value is n and isinstance(p.ctx, ast.Load):
            continue
        if isinstance(p, ast.Compare) and n in p.comparators and all(isinstance(o, (ast.In, ast.NotIn)) for o in p.ops):
            continue
        if isinstance(p, (ast.For, ast.comprehension)) and p.iter is n:
            continue
        return False
    return True


def shared_tables(tree, known_globals, known=False):
    """new (known=False) or reviewed (known=True) module-level and class-level constant tables -> {spelling: _Table}"""
    cands = []

    def wanted(qual):
        return (qual in known_globals) == known
    for st in tree.body:
        if isinstance(st, ast.Assign) and len(st.targets) == 1 and isinstance(st.targets[0], ast.Name) and wanted(st.targets[0].id):
            t = _literal_table(st.value)
            if t is not None:
                cands.append(({st.targets[0].id}, st.targets[0], t, st.targets[0].id))
        elif isinstance(st, ast.ClassDef):
            cnames = {x for s in st.body for x in _assigned(s)}
            cname = st.name

            def qualify(e, cname=cname, cnames=cnames):
                class Q(ast.NodeTransformer):
                    def visit_Name(self, node):
                        if node.id in cnames and isinstance(node.ctx, ast.Load):
                            return ast.copy_location(ast.Attribute(value=ast.Name(id=cname, ctx=ast.Load()), attr=node.id, ctx=ast.Load()), node)
                        return node
                return Q().visit(e)
            for s in st.body:
                if isinstance(s, ast.Assign) and len(s.targets) == 1 and isinstance(s.targets[0], ast.Name) and wanted("%s.%s" % (cname, s.targets[0].id)):
                    t = _literal_table(s.value, qualify)
                    if t is not None:
                        n = s.targets[0].id
                        cands.append(({"%s.%s" % (cname, n), "self.%s" % n, "cls.%s" % n}, s.targets[0], t, n))
    if not cands:
        return {}
    par = _parents(tree)
    out = {}
    for texts, defining, t, bare in cands:
        # the bare name is assigned once (class-level names are only visible through the class or the instance)
        stores = [n for n in ast.walk(tree) if isinstance(n, ast.Name) and n.id == bare and isinstance(n.ctx, (ast.Store, ast.Del))]
        if len(stores) != 1:
            continue
        if not _only_read(tree, texts | ({bare} if len(texts) == 1 else set()), defining, par):
            continue
        # setattr(obj, "name", ...) could replace a class-level table; a constant name equal to ours is refused
        if any(isinstance(n, ast.Constant) and n.value == bare for n in ast.walk(tree)):
            continue
        for tx in texts:
            out[tx] = t
    return out


def _pure_literal(v):
    if isinstance(v, ast.Constant) and isinstance(v.value, (int, float, str, bytes)) and not isinstance(v.value, bool):
        return True
    if isinstance(v, ast.UnaryOp) and isinstance(v.op, ast.USub) and isinstance(v.operand, ast.Constant) and isinstance(v.operand.value, (int, float)):
        return True
    if isinstance(v, ast.Tuple) and v.elts:
        return all(_pure_literal(e) for e in v.elts)
    return False


def inline_new_constants(tree, known_globals):
    """a new module-level or class-level name bound once to a literal (number, string, tuple of those) and only ever
    read is the literal: magic numbers that were given a name get their value back where they are used"""
    cands = []
    for st in tree.body:
        if isinstance(st, ast.Assign) and len(st.targets) == 1 and isinstance(st.targets[0], ast.Name) and st.targets[0].id not in known_globals and _pure_literal(st.value):
            cands.append(({st.targets[0].id}, st.targets[0], st.value, st.targets[0].id, None))
        elif isinstance(st, ast.ClassDef):
            for s_ in st.body:
                if isinstance(s_, ast.Assign) and len(s_.targets) == 1 and isinstance(s_.targets[0], ast.Name) and "%s.%s" % (st.name, s_.targets[0].id) not in known_globals \
                        and _pure_literal(s_.value):
                    n_ = s_.targets[0].id
                    cands.append(({"%s.%s" % (st.name, n_), "self.%s" % n_, "cls.%s" % n_}, s_.targets[0], s_.value, n_, st))
    if not cands:
        return 0
    par = _parents(tree)
    done = 0
    for texts, defining, value, bare, cls in cands:
        stores = [n for n in ast.walk(tree) if isinstance(n, ast.Name) and n.id == bare and isinstance(n.ctx, (ast.Store, ast.Del))]
        attr_st = [n for n in ast.walk(tree) if isinstance(n, ast.Attribute) and n.attr == bare and isinstance(n.ctx, (ast.Store, ast.Del))]
        if len(stores) != 1 or attr_st or any(isinstance(n, ast.Constant) and n.value == bare for n in ast.walk(tree)):
            continue
        if any(isinstance(n, ast.Global) and bare in n.names for n in ast.walk(tree)):
            continue
        if cls is None:
            # a function parameter or local of the same name would shadow it: refused above by the single store; parameters:
            if any(isinstance(n, ast.arg) and n.arg == bare for n in ast.walk(tree)):
                continue
            uses = [n for n in ast.walk(tree) if isinstance(n, ast.Name) and n.id == bare and isinstance(n.ctx, ast.Load)]
        else:
            uses = [n for n in ast.walk(tree) if isinstance(n, ast.Attribute) and isinstance(n.ctx, ast.Load) and _text(n) in texts]
            uses += [n for s_ in cls.body if not isinstance(s_, _SCOPES) for n in ast.walk(s_) if isinstance(n, ast.Name) and n.id == bare and isinstance(n.ctx, ast.Load)]
            # subclasses of the class in this module reading it through self are covered by the spelling self.<name>
        for u in uses:
            p = par.get(id(u))
            if p is None:
                continue
            new = copy.deepcopy(value)
            for x in ast.walk(new):
                ast.copy_location(x, u)
            for fld, val in ast.iter_fields(p):
                if val is u:
                    setattr(p, fld, new)
                elif isinstance(val, list):
                    for i, x in enumerate(val):
                        if x is u:
                            val[i] = new
            done += 1
    return done


# ---------------------------------------------------------------------------------------------- lookups

def _lookup(node, tables):
    """-> (table spelling, key expr, form, default) when node is a lookup of a dict table"""
    if isinstance(node, ast.Call) and isinstance(node.func, ast.Attribute) and node.func.attr == "get" and not node.keywords and len(node.args) in (1, 2):
        tx = _text(node.func.value)
        if tx in tables and tables[tx].kind == "dict":
            return tx, node.args[0], "get", node.args[1] if len(node.args) == 2 else None
    if isinstance(node, ast.Subscript) and isinstance(node.ctx, ast.Load):
        tx = _text(node.value)
        if tx in tables and tables[tx].kind == "dict":
            return tx, node.slice, "item", None
    if isinstance(node, ast.Compare) and len(node.ops) == 1 and isinstance(node.ops[0], (ast.In, ast.NotIn)):
        tx = _text(node.comparators[0])
        if tx in tables and tables[tx].kind == "dict":
            return tx, node.left, "in" if isinstance(node.ops[0], ast.In) else "notin", None
    return None


def _lookups_in(node, tables):
    return [(n, _lookup(n, tables)) for n in ast.walk(node) if _lookup(n, tables) is not None]


def _terminal(stmts):
    if not stmts:
        return False
    s = stmts[-1]
    if isinstance(s, (ast.Return, ast.Raise, ast.Continue, ast.Break)):
        return True
    if isinstance(s, ast.If):
        return bool(s.orelse) and _terminal(s.body) and _terminal(s.orelse)
    return False


class _Unsafe(Exception):
    pass


def _order_safe(stmts, tables, tx, key_text):
    """no lookup of the table can be evaluated after something that may have changed the key"""
    key_parts = set()
    e = key_text
    while True:
        key_parts.add(e)
        if "." not in e:
            break
        e = e.rsplit(".", 1)[0]

    def expr_events(node, dirty):
        """node: a simple statement or a header expression; -> dirty afterwards"""
        looks = [n for n in ast.walk(node) if (_lookup(n, tables) or (None,))[0] == tx]
        if looks and dirty:
            raise _Unsafe()
        lookset = {id(n) for n in looks}
        for n in ast.walk(node):
            if isinstance(n, ast.Call):
                if id(n) in lookset or id(n.func) in lookset:
                    # T.get(x)  /  T[x](...) : the lookup comes first; the second form then runs unknown code
                    if id(n.func) in lookset:
                        dirty = True
                    continue
                if looks:
                    raise _Unsafe()       # a call and a lookup in one statement: evaluation order not analysed
                dirty = True
            elif isinstance(n, (ast.Name, ast.Attribute)) and isinstance(n.ctx, (ast.Store, ast.Del)) and _text(n) in key_parts:
                dirty = True
            elif isinstance(n, (ast.Yield, ast.YieldFrom, ast.Await)):
                dirty = True
        return dirty

    def block(sts, dirty):
        for st in sts:
            if isinstance(st, _SCOPES):
                continue
            if isinstance(st, ast.If):
                dirty = expr_events(st.test, dirty)
                d1 = block(st.body, dirty)
                d2 = block(st.orelse, dirty)
                t1, t2 = _terminal(st.body), _terminal(st.orelse)
                dirty = (d1 and not t1) or (d2 and not t2) or (dirty and not (t1 and t2))
            elif isinstance(st, (ast.For, ast.While)):
                dirty = expr_events(st.iter if isinstance(st, ast.For) else st.test, dirty)
                d = block(st.body, dirty)
                d = block(st.body, d)          # a later iteration sees what an earlier one did
                if isinstance(st, ast.While):
                    expr_events(st.test, d)
                dirty = block(st.orelse, d)
            elif isinstance(st, ast.Try):
                d = block(st.body, dirty)
                for h in st.handlers:
                    d = block(h.body, True) or d
                d = block(st.orelse, d)
                dirty = block(st.finalbody, d)
            elif isinstance(st, ast.With):
                for it in st.items:
                    dirty = expr_events(it.context_expr, dirty)
                dirty = block(st.body, dirty)
            else:
                dirty = expr_events(st, dirty)
        return dirty
    try:
        block(stmts, False)
    except _Unsafe:
        return False
    return True


def _count_stmts(stmts):
    n = 0
    for s in stmts:
        n += 1
        for fld in ("body", "orelse", "finalbody"):
            n += _count_stmts([x for x in getattr(s, fld, None) or [] if isinstance(x, ast.stmt)])
        for h in getattr(s, "handlers", None) or []:
            n += _count_stmts(h.body)
    return n


# ---------------------------------------------------------------------------------------------- specialisation

class _Fold(ast.NodeTransformer):
    """decide tests made of constants and of expressions known not to be None"""
    def __init__(self, nonnull):
        self.nonnull = nonnull

    def _const(self, e):
        if isinstance(e, ast.Constant):
            return True, e.value
        return False, None

    def visit_Compare(self, node):
        self.generic_visit(node)
        if len(node.ops) == 1 and isinstance(node.ops[0], (ast.Is, ast.IsNot)):
            l, r = node.left, node.comparators[0]
            for a, b in ((l, r), (r, l)):
                if isinstance(b, ast.Constant) and b.value is None:
                    if isinstance(a, ast.Constant):
                        v = a.value is None
                    elif self.nonnull(a):
                        v = False
                    else:
                        continue
                    if isinstance(node.ops[0], ast.IsNot):
                        v = not v
                    return ast.copy_location(ast.Constant(value=v), node)
        return node

    def visit_UnaryOp(self, node):
        self.generic_visit(node)
        if isinstance(node.op, ast.Not) and isinstance(node.operand, ast.Constant) and isinstance(node.operand.value, bool):
            return ast.copy_location(ast.Constant(value=not node.operand.value), node)
        return node

    def visit_BoolOp(self, node):
        self.generic_visit(node)
        vals = []
        for v in node.values:
            if isinstance(v, ast.Constant) and isinstance(v.value, bool):
                if isinstance(node.op, ast.And):
                    if v.value:
                        continue
                    vals.append(v)
                    break
                else:
                    if not v.value:
                        continue
                    vals.append(v)
                    break
            vals.append(v)
        if not vals:
            return ast.copy_location(ast.Constant(value=isinstance(node.op, ast.And)), node)
        if len(vals) == 1:
            return vals[0]
        node.values = vals
        return node

    def visit_IfExp(self, node):
        self.generic_visit(node)
        if isinstance(node.test, ast.Constant) and isinstance(node.test.value, bool):
            return node.body if node.test.value else node.orelse
        return node


def _prune(stmts):
    """`if True/False` resolved, statements after a terminal statement dropped"""
    out = []
    for st in stmts:
        if isinstance(st, ast.If):
            st.body = _prune(st.body)
            st.orelse = _prune(st.orelse)
            if isinstance(st.test, ast.Constant) and isinstance(st.test.value, bool):
                out.extend(st.body if st.test.value else st.orelse)
                if _terminal(out):
                    break
                continue
            if not st.body:
                if not st.orelse:
                    continue
                st.body = [ast.copy_location(ast.Pass(), st)]
        else:
            for fld in ("body", "orelse", "finalbody"):
                blk = getattr(st, fld, None)
                if isinstance(blk, list) and blk and isinstance(blk[0], ast.stmt) and not isinstance(st, _SCOPES):
                    setattr(st, fld, _prune(blk) or ([ast.copy_location(ast.Pass(), st)] if fld == "body" else []))
            for h in getattr(st, "handlers", None) or []:
                h.body = _prune(h.body) or [ast.copy_location(ast.Pass(), h)]
        out.append(st)
        if isinstance(st, (ast.Return, ast.Raise, ast.Continue, ast.Break)):
            break
    return out


def _specialise(stmts, tables, tx, key, value, present, new_local, nonnull):
    """copy of stmts for one value of the key"""
    stmts = copy.deepcopy(stmts)

    class L(ast.NodeTransformer):
        def visit(self, node):
            lk = _lookup(node, tables)
            if lk is not None and lk[0] == tx:
                _, _, form, default = lk
                if form == "in":
                    return ast.copy_location(ast.Constant(value=present), node)
                if form == "notin":
                    return ast.copy_location(ast.Constant(value=not present), node)
                if present:
                    return ast.copy_location(copy.deepcopy(value), node)
                if form == "get":
                    return ast.copy_location(copy.deepcopy(default) if default is not None else ast.Constant(value=None), node)
                return node             # T[x] with x absent: KeyError, handled by the caller
            return self.generic_visit(node)
    out = []
    for st in stmts:
        st = L().visit(st)
        out.append(st)
    if not present:
        # a statement that still subscripts the table raises KeyError there
        def keyerr(sts):
            res = []
            for st in sts:
                heads = [st] if not isinstance(st, (ast.If, ast.For, ast.While, ast.Try, ast.With)) else \
                    [getattr(st, "test", None) or getattr(st, "iter", None)] if not isinstance(st, (ast.Try, ast.With)) else []
                if any(h is not None and any((_lookup(n, tables) or (None,))[0] == tx for n in ast.walk(h)) for h in heads):
                    r = ast.Raise(exc=ast.Call(func=ast.Name(id="KeyError", ctx=ast.Load()), args=[copy.deepcopy(key)], keywords=[]), cause=None)
                    res.append(ast.copy_location(r, st))
                    break
                for fld in ("body", "orelse", "finalbody"):
                    blk = getattr(st, fld, None)
                    if isinstance(blk, list) and blk and isinstance(blk[0], ast.stmt):
                        setattr(st, fld, keyerr(blk))
                res.append(st)
            return res
        out = keyerr(out)
    # a new local that only holds the looked-up value is the value
    k = 0
    while k < len(out):
        st = out[k]
        if isinstance(st, ast.Assign) and len(st.targets) == 1 and isinstance(st.targets[0], ast.Name) and new_local(st.targets[0].id) \
                and (_simple(st.value)):
            h = st.targets[0].id
            rest = out[k + 1:]
            if not any(isinstance(n, ast.Name) and n.id == h and isinstance(n.ctx, (ast.Store, ast.Del)) for s in rest for n in ast.walk(s)):
                val = st.value

                class P(ast.NodeTransformer):
                    def visit_Name(self, node):
                        if node.id == h and isinstance(node.ctx, ast.Load):
                            return ast.copy_location(copy.deepcopy(val), node)
                        return node
                out[k + 1:] = [P().visit(s) for s in rest]
                del out[k]
                continue
        k += 1
    out = [_Fold(nonnull).visit(s) for s in out]
    return _prune(out)


# ---------------------------------------------------------------------------------------------- the pass

def _own_walk(fn):
    out = []

    def rec(n):
        for ch in ast.iter_child_nodes(n):
            out.append(ch)
            if not isinstance(ch, _SCOPES):
                rec(ch)
    rec(fn)
    return out


def _loop_breaks(body):
    """break / continue statements that belong to the loop whose body this is"""
    out = []

    def rec(sts):
        for s in sts:
            if isinstance(s, (ast.Break, ast.Continue)):
                out.append(s)
            elif isinstance(s, (ast.For, ast.While)):
                rec(s.orelse)
            elif isinstance(s, _SCOPES):
                continue
            else:
                for fld in ("body", "orelse", "finalbody"):
                    rec([x for x in getattr(s, fld, None) or [] if isinstance(x, ast.stmt)])
                for h in getattr(s, "handlers", None) or []:
                    rec(h.body)
    rec(body)
    return out


def row_loop_signature(node, names):
    from .normalize import _sig
    return _sig(node, names)


def expand_new_tables(tree, modname, reference, qualnames_fn, getattr_rewrite=None):
    ref = (reference or {}).get(modname) or {}
    known_fns = set(ref.get("__functions__", []))
    if not known_fns or "__globals__" not in ref:
        return 0
    known_globals = set(ref["__globals__"])
    cons = ref.get("__constructs__", {})
    n_const = inline_new_constants(tree, known_globals)
    shared = shared_tables(tree, known_globals)
    # reviewed tables of rows (e.g. a tuple of field names) may be walked by a NEW loop: that loop is unrolled too
    reviewed = {k: v for k, v in shared_tables(tree, known_globals, known=True).items() if v.kind == "rows"} if cons is not None else {}
    # names that are never None: functions, classes, imports of the module; methods
    defs = set()
    plain = set()
    methods = set()
    attr_stores = set()
    star = False
    for n in ast.walk(tree):
        if isinstance(n, (ast.FunctionDef, ast.ClassDef)):
            defs.add(n.name)
        elif isinstance(n, ast.ImportFrom):
            for a in n.names:
                if a.name == "*":
                    star = True
                else:
                    defs.add(a.asname or a.name)
        elif isinstance(n, ast.Import):
            for a in n.names:
                defs.add((a.asname or a.name).split(".")[0])
        elif isinstance(n, ast.Name) and isinstance(n.ctx, ast.Store):
            plain.add(n.id)
        elif isinstance(n, ast.Attribute) and isinstance(n.ctx, ast.Store):
            attr_stores.add(n.attr)
    for n in ast.walk(tree):
        if isinstance(n, ast.ClassDef):
            for s in n.body:
                if isinstance(s, ast.FunctionDef):
                    methods.add(s.name)

    def nonnull(e):
        if isinstance(e, ast.Constant):
            return e.value is not None
        if isinstance(e, ast.Name):
            return (e.id in defs and e.id not in plain) or (star and e.id not in plain and e.id[:1].isupper())
        if isinstance(e, ast.Attribute) and isinstance(e.value, ast.Name) and e.value.id == "self":
            return e.attr in methods and e.attr not in attr_stores
        return False

    module_level_once = set()
    cnt = {}
    for n in ast.walk(tree):
        if isinstance(n, ast.Name) and isinstance(n.ctx, (ast.Store, ast.Del)):
            cnt[n.id] = cnt.get(n.id, 0) + 1
    for st in tree.body:
        for nm in _assigned(st):
            if cnt.get(nm) == 1:
                module_level_once.add(nm)

    def stable(e):
        """the expression means the same object whenever it is evaluated (constants, functions, classes, methods, module constants)"""
        if isinstance(e, ast.Constant):
            return True
        if isinstance(e, ast.Name):
            return (e.id in defs and e.id not in plain) or e.id in module_level_once or (star and e.id not in plain)
        if isinstance(e, ast.Attribute):
            if isinstance(e.value, ast.Name) and e.value.id == "self":
                return e.attr in methods and e.attr not in attr_stores
            return stable(e.value) and e.attr not in attr_stores
        return False

    count = n_const
    for q, fn in qualnames_fn(tree):
        if q not in known_fns:
            continue
        known_locals = {b[0] for b in ref.get(q, [])}
        params = {a.arg for a in fn.args.args + fn.args.kwonlyargs}
        own = _own_walk(fn)
        stored = {}
        for n in own:
            if isinstance(n, ast.Name) and isinstance(n.ctx, (ast.Store, ast.Del)):
                stored[n.id] = stored.get(n.id, 0) + 1
        # local tables
        tables = dict(shared)
        local_defs = {}
        for n in own:
            if isinstance(n, ast.Assign) and len(n.targets) == 1 and isinstance(n.targets[0], ast.Name):
                nm = n.targets[0].id
                if nm not in known_locals and nm not in params and stored.get(nm) == 1 and isinstance(n.value, (ast.Dict, ast.Tuple, ast.List)):
                    t = _literal_table(n.value)
                    if t is not None:
                        local_defs[nm] = (n, t)
        if local_defs:
            par = _parents(fn)
            for nm, (st, t) in local_defs.items():
                if _only_read(fn, {nm}, st.targets[0], par):
                    tables[nm] = t
        # inline row loops the reference does not have
        names = set(stored)
        have_rowloops = list(cons.get(q, {}).get("rowloop", [])) + list(cons.get(q, {}).get("nameloop", []))
        have_tableloops = list(cons.get(q, {}).get("tableloop", []))
        new_table_loops = [n for n in own if isinstance(n, ast.For) and _text(n.iter) in reviewed]
        if not tables and not new_table_loops and not any(isinstance(n, ast.For) and isinstance(n.iter, (ast.Tuple, ast.List)) for n in own):
            continue
        texts = {_text(n) for n in own if isinstance(n, (ast.Name, ast.Attribute))}
        if not (set(tables) & texts) and not new_table_loops and not any(isinstance(n, ast.For) and isinstance(n.iter, (ast.Tuple, ast.List)) for n in own):
            continue

        def new_local_name(nm):
            return nm not in known_locals and nm not in params

        def loads_outside(nm, node):
            inside = {id(x) for x in ast.walk(node)}
            return any(isinstance(x, ast.Name) and x.id == nm and isinstance(x.ctx, ast.Load) and id(x) not in inside for x in ast.walk(fn))

        def unroll(st):
            """T2 -> list of statements or None"""
            it = st.iter
            tx = _text(it)
            t = None
            named = False
            if tx in tables:
                t = tables[tx]
                rows = [[k] for k, _ in t.rows] if t.kind == "dict" else t.rows
                named = True
            elif tx in reviewed:
                from .normalize import _sig as _nsig
                sg = _nsig(ast.For(target=st.target, iter=st.iter, body=[ast.Pass()], orelse=[]), names)
                if sg in have_tableloops:
                    have_tableloops.remove(sg)
                    return None
                t = reviewed[tx]
                rows = t.rows
                named = True
            elif isinstance(it, ast.Call) and isinstance(it.func, ast.Attribute) and not it.args and not it.keywords and _text(it.func.value) in tables \
                    and tables[_text(it.func.value)].kind == "dict" and it.func.attr in ("items", "keys", "values"):
                t = tables[_text(it.func.value)]
                rows = [[k, v] for k, v in t.rows] if it.func.attr == "items" else [[k] for k, _ in t.rows] if it.func.attr == "keys" else [[v] for _, v in t.rows]
            elif isinstance(it, (ast.Tuple, ast.List)):
                sg = row_loop_signature(st, names)
                if sg in have_rowloops:
                    have_rowloops.remove(sg)
                    return None
                t = _literal_table(it)
                if t is None or t.kind != "rows":
                    return None
                rows = t.rows
            else:
                return None
            if not all(stable(x) for r in rows for x in r):
                # an inline literal of plain local names and constants: the rows are evaluated once before the loop, which
                # is the same as reading the names in the passes if no pass rebinds them
                if named or not isinstance(it, (ast.Tuple, ast.List)) or not all(isinstance(x, (ast.Name, ast.Constant)) for r in rows for x in r):
                    return None
                row_names = {x.id for r in rows for x in r if isinstance(x, ast.Name)}
                if any(isinstance(n, ast.Name) and n.id in row_names and isinstance(n.ctx, (ast.Store, ast.Del)) for b_ in st.body + st.orelse for n in ast.walk(b_)):
                    return None

            tg = st.target
            if isinstance(tg, ast.Name):
                tnames = [tg.id]
                if any(len(r) != 1 for r in rows):
                    return None
            elif isinstance(tg, (ast.Tuple, ast.List)) and all(isinstance(e, ast.Name) for e in tg.elts):
                tnames = [e.id for e in tg.elts]
                if any(len(r) != len(tnames) for r in rows):
                    return None
            else:
                return None
            if len(set(tnames)) != len(tnames):
                return None
            body_nodes = [n for s in st.body for n in ast.walk(s)] + [n for s in st.orelse for n in ast.walk(s)]
            if any(isinstance(n, _SCOPES) for n in body_nodes):
                return None
            for nm in tnames:
                # bound by this loop only (counted now: an earlier loop with the same target may have been unrolled away)
                # nm is a loop variable only: every binding is the target of a for loop, every read lies in the body of such a loop
                binders = [l for l in ast.walk(fn) if isinstance(l, ast.For) and any(isinstance(x, ast.Name) and x.id == nm for x in ast.walk(l.target))]
                bound_ids = {id(x) for l in binders for x in ast.walk(l.target)}
                inside_ids = {id(x) for l in binders for b_ in l.body + l.orelse for x in ast.walk(b_)}
                ok_nm = nm not in params
                for x in ast.walk(fn):
                    if isinstance(x, ast.Name) and x.id == nm:
                        if isinstance(x.ctx, (ast.Store, ast.Del)) and id(x) not in bound_ids:
                            ok_nm = False
                        elif isinstance(x.ctx, ast.Load) and id(x) not in inside_ids:
                            ok_nm = False
                if not ok_nm:
                    return None
            brk = _loop_breaks(st.body)
            shape = "plain"
            if brk:
                last = st.body[-1]
                if len(brk) == 1 and isinstance(brk[0], ast.Break) and isinstance(last, ast.If) and not last.orelse and last.body and last.body[-1] is brk[0]:
                    shape = "search"
                else:
                    return None
            if _count_stmts(st.body) * len(rows) > 200:
                return None
            # locals that live inside one iteration
            per_iter = []
            seen_first = {}
            for s in st.body:
                for n in ast.walk(s):
                    if isinstance(n, ast.Name) and n.id not in seen_first:
                        seen_first[n.id] = n.ctx
            body_stores = {n.id for n in body_nodes if isinstance(n, ast.Name) and isinstance(n.ctx, ast.Store)}
            for nm in sorted(body_stores):
                if nm in tnames or nm in params:
                    continue
                inside_stores = sum(1 for n in body_nodes if isinstance(n, ast.Name) and n.id == nm and isinstance(n.ctx, (ast.Store, ast.Del)))
                if inside_stores == stored.get(nm, 0) and not loads_outside(nm, st) and isinstance(seen_first.get(nm), ast.Store) \
                        and not any(isinstance(n, ast.Name) and n.id == nm for s in st.orelse for n in ast.walk(s)):
                    per_iter.append(nm)

            def body_for(k, row, sts):
                exprs = dict(zip(tnames, row))
                ren = {nm: "%s__t%d" % (nm, k + 1) for nm in per_iter}

                class S(ast.NodeTransformer):
                    def visit_Name(self, node):
                        if node.id in exprs and isinstance(node.ctx, ast.Load):
                            return ast.copy_location(copy.deepcopy(exprs[node.id]), node)
                        if node.id in ren:
                            return ast.copy_location(ast.Name(id=ren[node.id], ctx=node.ctx), node)
                        return node
                res = [S().visit(copy.deepcopy(s)) for s in sts]
                if getattr_rewrite is not None:
                    res = [getattr_rewrite(s) for s in res]
                return [_setattr_to_store(s) for s in res]
            if shape == "plain":
                out = []
                for k, row in enumerate(rows):
                    out.extend(body_for(k, row, st.body))
                out.extend(st.orelse)
                return out
            tail = list(st.orelse)
            for k in range(len(rows) - 1, -1, -1):
                b = body_for(k, rows[k], st.body)
                last = b[-1]
                last.body = last.body[:-1] or [ast.copy_location(ast.Pass(), last)]
                last.orelse = tail
                tail = b
            return tail

        def split(stmts, i):
            """T1 on stmts[i:] -> replacement list or None"""
            rem = stmts[i:]
            looks = [lk for s in rem[:1] for _, lk in _lookups_in(s, tables)]
            if not looks:
                return None
            tx, key = looks[0][0], looks[0][1]
            if not _simple(key) or isinstance(key, ast.Constant):
                return None
            kt = _text(key)
            alls = [lk for s in rem for _, lk in _lookups_in(s, tables) if lk[0] == tx]
            if any(_text(lk[1]) != kt for lk in alls):
                return None
            if any(lk[3] is not None and not _simple(lk[3]) for lk in alls):
                return None
            if _count_stmts(rem) > _MAX_REST:
                return None
            # other uses of the table in the remainder (loops over it) are left alone only if there are none
            uses = sum(1 for s in rem for n in ast.walk(s) if isinstance(n, (ast.Name, ast.Attribute)) and _text(n) == tx)
            if uses != len(alls):
                return None
            if any(isinstance(n, _SCOPES) for s in rem for n in ast.walk(s)):
                return None
            if not _order_safe(rem, tables, tx, kt):
                return None
            t = tables[tx]
            if not all(stable(kx) and stable(vx) for kx, vx in t.rows):
                return None
            chain = None
            inside = {id(x) for s in rem for x in ast.walk(s)}
            fn_loads = {}
            for x in ast.walk(fn):
                if isinstance(x, ast.Name) and isinstance(x.ctx, ast.Load) and id(x) not in inside:
                    fn_loads[x.id] = True
            new_local = lambda nm, _n=new_local_name: _n(nm) and nm not in fn_loads      # noqa: E731
            absent = _specialise(rem, tables, tx, key, None, False, new_local, nonnull)
            tail = absent
            for kx, vx in reversed(t.rows):
                body = _specialise(rem, tables, tx, key, vx, True, new_local, nonnull) or [ast.Pass()]
                test = ast.Compare(left=copy.deepcopy(key), ops=[ast.Eq()], comparators=[copy.deepcopy(kx)])
                chain = ast.If(test=test, body=body, orelse=tail)
                tail = [chain]
            return [chain]

        changed = 0

        def block(stmts, depth=0):
            nonlocal changed
            out = list(stmts)
            i = 0
            while i < len(out):
                st = out[i]
                if isinstance(st, _SCOPES):
                    i += 1
                    continue
                if isinstance(st, ast.For) and depth < 60:
                    new = unroll(st)
                    if new is not None:
                        base = getattr(st, "lineno", 0)
                        for x in new:
                            ast.copy_location(x, st)
                            ast.fix_missing_locations(x)
                        from .normalize import _relocate
                        _relocate(new, base, 0)
                        out[i:i + 1] = new
                        changed += 1
                        # the loop is gone (the enclosing function still holds the old list until this block returns)
                        st.target = ast.Name(id="__unrolled__", ctx=ast.Store())
                        st.body = [ast.Pass()]
                        continue                    # look at the unrolled statements again
                if depth < 60 and _lookups_in(st, tables):
                    new = split(out, i)
                    if new is not None:
                        base = getattr(st, "lineno", 0)
                        for x in new:
                            ast.copy_location(x, st)
                            ast.fix_missing_locations(x)
                        from .normalize import _relocate
                        _relocate(new, base, 0)
                        out[i:] = new
                        changed += 1
                        # the copies contain no lookup of this table any more; other tables are handled below
                for fld in ("body", "orelse", "finalbody"):
                    blk = getattr(out[i], fld, None)
                    if isinstance(blk, list) and blk and isinstance(blk[0], ast.stmt):
                        setattr(out[i], fld, block(blk, depth + 1))
                for h in getattr(out[i], "handlers", None) or []:
                    h.body = block(h.body, depth + 1)
                i += 1
            return out
        fn.body = block(fn.body)
        if changed:
            # a local table nothing refers to any more is dropped
            for nm, (st, t) in local_defs.items():
                if nm in tables and not any(isinstance(n, ast.Name) and n.id == nm and isinstance(n.ctx, ast.Load) for n in ast.walk(fn)):
                    _remove_stmt(fn, st)
            ast.fix_missing_locations(fn)
            count += changed
    return count


def _setattr_to_store(st):
    """setattr(o, "name", v) as a statement, with a constant identifier, is  o.name = v  (also inside nested blocks)"""
    if isinstance(st, ast.Expr) and isinstance(st.value, ast.Call) and isinstance(st.value.func, ast.Name) and st.value.func.id == "setattr" and len(st.value.args) == 3 \
            and not st.value.keywords and isinstance(st.value.args[1], ast.Constant) and isinstance(st.value.args[1].value, str) and st.value.args[1].value.isidentifier():
        tgt = ast.Attribute(value=st.value.args[0], attr=st.value.args[1].value, ctx=ast.Store())
        return ast.fix_missing_locations(ast.copy_location(ast.Assign(targets=[ast.copy_location(tgt, st)], value=st.value.args[2]), st))
    for fld in ("body", "orelse", "finalbody"):
        blk = getattr(st, fld, None)
        if isinstance(blk, list) and blk and isinstance(blk[0], ast.stmt):
            setattr(st, fld, [_setattr_to_store(x) for x in blk])
    return st


def _remove_stmt(root, target):
    for n in ast.walk(root):
        for fld in ("body", "orelse", "finalbody"):
            blk = getattr(n, fld, None)
            if isinstance(blk, list) and target in blk:
                blk.remove(target)
                if not blk and fld == "body":
                    blk.append(ast.copy_location(ast.Pass(), target))
                return True
    return False
