"""bacverif - repository-specific static analysis of JoelBender/bacpypes.

Nothing in this package imports or executes code from the analysed tree; all
facts are extracted from the syntax trees of ``<root>/py34/bacpypes``.
"""

__all__ = ["model", "paths", "guards", "tables", "report"]
